// C11 — ADNL transport frames and handshake interoperate and detect
// corruption. tongo's client (liteclient.NewConnection / Connection.Send /
// Connection.Responses / ParsePacket) is run against the stdlib-only
// reference peer in harness/ref/adnl, through a byte-stream proxy that
// re-segments the TCP stream and injects exactly one fault per faulty run.
// See DESIGN.md §5 C11. Built with -race; every section runs in child
// processes so that tongo's own prints and zombie connections (a Connection
// cannot be closed) stay out of the verdict stream.
package main

import (
	"bytes"
	"context"
	"crypto/aes"
	"crypto/cipher"
	"encoding/binary"
	"encoding/json"
	"fmt"
	"io"
	"os"
	"path/filepath"
	"sort"
	"strings"
	"sync"
	"sync/atomic"
	"testing/iotest"
	"time"

	"github.com/tonkeeper/tongo/liteclient"

	"verifharness/mon"
	"verifharness/ref/adnl"
)

type span struct {
	From int `json:"from"`
	To   int `json:"to"`
}

// ---------------------------------------------------------------- helpers

var ipCounter atomic.Int32

// caseIP gives every case its own loopback address, so that connections left
// behind by earlier cases (tongo reconnects for ever) can never reach a
// listener of a later case through a recycled port number.
func caseIP() string {
	n := ipCounter.Add(1)
	return fmt.Sprintf("127.%d.%d.%d", 16+os.Getpid()%200, (n>>8)&255, n&255)
}

// probe measures how late a 5 ms sleeper wakes up (machine load).
type probe struct {
	max  atomic.Int64
	stop chan struct{}
}

func startProbe() *probe {
	p := &probe{stop: make(chan struct{})}
	go func() {
		for {
			t0 := time.Now()
			select {
			case <-p.stop:
				return
			case <-time.After(5 * time.Millisecond):
			}
			late := time.Since(t0) - 5*time.Millisecond
			for {
				old := p.max.Load()
				if int64(late) <= old || p.max.CompareAndSwap(old, int64(late)) {
					break
				}
			}
		}
	}()
	return p
}

// Max gives the probe goroutine a moment to run first: right after a stall
// (VM pause, clock jump) the caller may have woken up before it.
func (p *probe) Max() time.Duration {
	time.Sleep(300 * time.Millisecond)
	return time.Duration(p.max.Load())
}
func (p *probe) Stop() { close(p.stop) }

func sizeClass(n int) string {
	switch {
	case n == 0:
		return "0"
	case n == 1:
		return "1"
	case n < 63:
		return "2..62"
	case n <= 65:
		return fmt.Sprint(n)
	case n < 1024:
		return "66..1023"
	case n == 1024:
		return "1KiB"
	case n < 65536:
		return "1KiB..64KiB"
	case n == 65536:
		return "64KiB"
	case n < 1<<20:
		return "64KiB..1MiB"
	case n < 8<<20-64:
		return "1MiB..8MiB"
	case n == 8<<20-64:
		return "8MiB-64(limit)"
	}
	return ">limit"
}

var specialSizes = []int{0, 1, 63, 64, 65, 1024, 65536}

func pickSize(rng *mon.Rng, big bool) int {
	switch rng.Intn(10) {
	case 0, 1, 2, 3:
		s := mon.Pick(rng, specialSizes)
		if s == 65536 && !big {
			return 1024
		}
		return s
	case 4, 5, 6:
		return rng.Range(2, 200)
	case 7, 8:
		return rng.Range(200, 5000)
	}
	if big {
		return rng.Range(5000, 65536)
	}
	return rng.Range(200, 3000)
}

// payload returns random bytes that cannot be mistaken for the transport's
// own control messages (tcp.ping / tcp.pong / tcp.authentificationNonce are
// consumed below the packet level by either side).
func payload(rng *mon.Rng, n int) []byte {
	b := rng.Bytes(n)
	if n >= 4 {
		for _, m := range [][]byte{adnl.MagicPing, adnl.MagicPong, adnl.MagicAuthNonce} {
			if bytes.Equal(b[:4], m) {
				b[0] ^= 0x55
			}
		}
	}
	return b
}

// magicPayload returns a payload that begins with the constructor id of one of the transport's
// own messages without being one (those are exactly 12 bytes long: id + random_id:long), plus the
// 12-byte forms that the receiving side of direction dir does not consume: an application may send
// such bytes, and they must arrive like any others. Left out: what the receiver of that direction
// answers or consumes itself (tcp.ping of 12 bytes towards the server, tcp.pong of 12 bytes and
// tcp.authentificationNonce towards the client).
func magicPayload(rng *mon.Rng, dir int) []byte {
	tail := func(not12 bool) []byte {
		n := mon.Pick(rng, []int{0, 1, 4, 7, 9, 100, rng.Range(0, 40)})
		if not12 && n == 8 {
			n = 9
		}
		return rng.Bytes(n)
	}
	if dir == adnl.ServerToClient {
		if rng.Bool() {
			return append(append([]byte{}, adnl.MagicPong...), tail(true)...)
		}
		return append(append([]byte{}, adnl.MagicPing...), rng.Bytes(mon.Pick(rng, []int{0, 8, 8, 20}))...)
	}
	switch rng.Intn(3) {
	case 0:
		return append(append([]byte{}, adnl.MagicPing...), tail(true)...)
	case 1:
		return append(append([]byte{}, adnl.MagicPong...), rng.Bytes(mon.Pick(rng, []int{0, 8, 8, 20}))...)
	}
	return append(append([]byte{}, adnl.MagicAuthNonce...), tail(false)...)
}

func nonceSource(rng *mon.Rng) (adnl.NonceSource, *sync.Mutex) {
	var mu sync.Mutex
	return func() [32]byte {
		mu.Lock()
		defer mu.Unlock()
		var n [32]byte
		copy(n[:], rng.Bytes(32))
		return n
	}, &mu
}

// collector drains Connection.Responses().
type collector struct {
	mu   sync.Mutex
	got  [][]byte
	last *liteclient.Packet // the packet delivered last, as it came out of Responses()
	tick chan struct{}
}

// packetModes: the ways an application can come by the Packet it hands to Connection.Send. Packet
// is a plain struct with an exported Payload field, so besides NewPacket there are literals, packets
// whose payload was assigned or edited after construction, and packets taken from Responses() and
// sent on with another payload. Whatever the way, the payload the packet holds when Send is called
// is the payload the peer must receive.
var packetModes = []string{"NewPacket", "NewPacket", "NewPacket", "literal", "payload-assigned-after-NewPacket", "payload-edited-in-place-after-NewPacket", "received-packet-with-new-payload"}

func buildPacket(rng *mon.Rng, col *collector, pl []byte) (pk liteclient.Packet, mode string, err error) {
	mode = mon.Pick(rng, packetModes)
	switch mode {
	case "literal":
		return liteclient.Packet{Payload: pl}, mode, nil
	case "payload-assigned-after-NewPacket":
		pk, err = liteclient.NewPacket(rng.Bytes(rng.Intn(80)))
		pk.Payload = pl
		return pk, mode, err
	case "payload-edited-in-place-after-NewPacket":
		buf := rng.Bytes(len(pl))
		pk, err = liteclient.NewPacket(buf)
		copy(buf, pl)
		return pk, mode, err
	case "received-packet-with-new-payload":
		col.mu.Lock()
		last := col.last
		col.mu.Unlock()
		if last != nil {
			pk = *last
			pk.Payload = pl
			return pk, mode, nil
		}
		mode = "NewPacket" // nothing received yet
	}
	pk, err = liteclient.NewPacket(pl)
	return pk, mode, err
}

func collect(conn *liteclient.Connection) *collector {
	c := &collector{tick: make(chan struct{}, 1)}
	go func() {
		for p := range conn.Responses() {
			c.mu.Lock()
			c.got = append(c.got, p.Payload)
			pc := p
			c.last = &pc
			c.mu.Unlock()
			select {
			case c.tick <- struct{}{}:
			default:
			}
		}
	}()
	return c
}
func (c *collector) snapshot() [][]byte {
	c.mu.Lock()
	defer c.mu.Unlock()
	return append([][]byte(nil), c.got...)
}

// waitCount waits until n packets were delivered (true) or d elapsed.
func (c *collector) waitCount(n int, d time.Duration) bool {
	deadline := time.After(d)
	for {
		c.mu.Lock()
		k := len(c.got)
		c.mu.Unlock()
		if k >= n {
			return true
		}
		select {
		case <-c.tick:
		case <-time.After(20 * time.Millisecond):
		case <-deadline:
			return false
		}
	}
}

// serverSide is what the reference peer observed on one session.
type serverSide struct {
	mu       sync.Mutex
	recv     [][]byte
	spans    []adnl.Span
	pings    int
	recvErr  error
	errSpan  adnl.Span
	sent     chan struct{} // closed when the scripted frames have been written
	release  chan struct{} // closed by the case when the server may close
	sessions int
	txSpans  []adnl.Span
	txTotal  int64
	hsErr    error
	tick     chan struct{}
	sendErr  error
	peerDone chan struct{}
	peer     *adnl.Peer
}

func newServerSide() *serverSide {
	return &serverSide{sent: make(chan struct{}), release: make(chan struct{}), tick: make(chan struct{}, 1), peerDone: make(chan struct{})}
}

func (s *serverSide) waitRecv(n int, d time.Duration) bool {
	deadline := time.After(d)
	for {
		s.mu.Lock()
		k, e := len(s.recv), s.recvErr
		s.mu.Unlock()
		if k >= n || e != nil {
			return k >= n
		}
		select {
		case <-s.tick:
		case <-time.After(20 * time.Millisecond):
		case <-deadline:
			return false
		}
	}
}

// startServer runs a reference server whose first session sends `script`
// (server->client payloads) and records everything it receives.
func startServer(ip string, id *adnl.Identity, ns adnl.NonceSource, script [][]byte, pong bool, batch bool) (*adnl.Server, *serverSide, error) {
	ss := newServerSide()
	srv, err := adnl.Listen(ip+":0", id, ns, func(srv *adnl.Server) { setupServer(srv, ss, ns, script, pong, batch) })
	return srv, ss, err
}

func setupServer(srv *adnl.Server, ss *serverSide, ns adnl.NonceSource, script [][]byte, pong bool, batch bool) {
	srv.LogTx = true
	srv.HandshakeTimeout = 1500 * time.Millisecond
	srv.OnHandshakeError = func(e error) {
		ss.mu.Lock()
		if ss.hsErr == nil {
			ss.hsErr = e
		}
		ss.mu.Unlock()
	}
	srv.OnPeer = func(p *adnl.Peer) {
		ss.mu.Lock()
		ss.sessions++
		first := ss.sessions == 1
		ss.mu.Unlock()
		if !first {
			p.Close()
			return
		}
		ss.mu.Lock()
		ss.peer = p
		ss.mu.Unlock()
		go func() {
			defer close(ss.sent)
			if batch {
				for i := 0; i < len(script); {
					n := 1 + i%5
					if i+n > len(script) {
						n = len(script) - i
					}
					var ncs [][32]byte
					for k := 0; k < n; k++ {
						ncs = append(ncs, ns())
					}
					if err := p.SendBatch(ncs, script[i:i+n]); err != nil {
						ss.mu.Lock()
						ss.sendErr = err
						ss.mu.Unlock()
						return
					}
					i += n
				}
				return
			}
			for _, pl := range script {
				if err := p.Send(ns(), pl); err != nil {
					ss.mu.Lock()
					ss.sendErr = err
					ss.mu.Unlock()
					return
				}
			}
		}()
		go func() {
			<-ss.release
			<-ss.sent
			sp, tot := p.TxLog()
			ss.mu.Lock()
			ss.txSpans, ss.txTotal = sp, tot
			ss.mu.Unlock()
			p.Close()
		}()
		for {
			pl, sp, err := p.Recv()
			if err != nil {
				ss.mu.Lock()
				if err != io.EOF {
					ss.recvErr, ss.errSpan = err, sp
				} else if ss.recvErr == nil {
					ss.recvErr = io.EOF
				}
				ss.mu.Unlock()
				if err != io.EOF {
					// a server drops a connection whose stream it cannot follow any more; left open and
					// unread it would park the client's writers behind a full socket buffer
					p.Close()
				}
				break
			}
			if pg, ok := adnl.IsPing(pl); ok {
				ss.mu.Lock()
				ss.pings++
				ss.mu.Unlock()
				if pong {
					p.Send(ns(), pg)
				}
				continue
			}
			ss.mu.Lock()
			ss.recv = append(ss.recv, append([]byte(nil), pl...))
			ss.spans = append(ss.spans, sp)
			ss.mu.Unlock()
			select {
			case ss.tick <- struct{}{}:
			default:
			}
		}
		select {
		case ss.tick <- struct{}{}:
		default:
		}
		close(ss.peerDone)
	}
}

func frameErrClass(err error) string {
	if fe, ok := err.(*adnl.FrameError); ok {
		return mon.PanicClass(strings.SplitN(fe.Reason, ":", 2)[0])
	}
	if he, ok := err.(*adnl.HandshakeError); ok {
		return mon.PanicClass(strings.SplitN(he.Reason, ":", 2)[0])
	}
	return "io"
}

func dial(key []byte, addr string) (conn *liteclient.Connection, err error, p *mon.Panic) {
	ctx, cancel := context.WithTimeout(context.Background(), 20*time.Second)
	defer cancel()
	p = mon.Guard(func() { conn, err = liteclient.NewConnection(ctx, key, addr) })
	return
}

func firstDiff(a, b []byte) int {
	for i := 0; i < len(a) && i < len(b); i++ {
		if a[i] != b[i] {
			return i
		}
	}
	if len(a) != len(b) {
		if len(a) < len(b) {
			return len(a)
		}
		return len(b)
	}
	return -1
}

// ---------------------------------------------------------------- clean runs

type cleanOpts struct {
	nearLimit bool // one payload of 8 MiB-64 in each direction
	overLimit int  // >0: one server->client payload of 8 MiB-64+overLimit (may be refused, must not be mangled)
}

func cleanCase(w *mon.Worker, idx int, o cleanOpts) {
	rng := w.Rng("clean", idx)
	id := adnl.NewIdentity(rng.Bytes(32))
	modes := [2]adnl.ChunkMode{adnl.ChunkMode(rng.Intn(4)), adnl.ChunkMode(rng.Intn(4))}
	if o.nearLimit || o.overLimit > 0 {
		modes = [2]adnl.ChunkMode{adnl.ChunkPass, mon.Pick(rng, []adnl.ChunkMode{adnl.ChunkPass, adnl.ChunkCoalesce})}
	}
	gen := func(dir int) [][]byte {
		n := rng.Range(1, 200)
		if rng.Chance(1, 3) {
			n = rng.Range(1, 12)
		}
		budget := 3 << 20
		// tongo drops a connection after 10 s without an incoming packet, so a clean run has to be
		// over well before that: slow segmentations carry less data
		if modes[dir] == adnl.ChunkOneByte {
			budget = 16 << 10
		} else if modes[dir] == adnl.ChunkRandom {
			budget = 300 << 10
		}
		var out [][]byte
		for i := 0; i < n && budget > 0; i++ {
			s := pickSize(rng, true)
			if i < len(specialSizes) && idx%4 == 0 {
				s = specialSizes[i] // every 4th connection walks through all named sizes
			}
			if s+adnl.FrameOverhead > budget && i > 0 {
				break
			}
			budget -= s + adnl.FrameOverhead
			if rng.Chance(1, 12) {
				mp := magicPayload(rng, dir)
				budget -= len(mp) + adnl.FrameOverhead
				out = append(out, mp)
				w.Seen("transport_magic_prefixed_payloads", fmt.Sprintf("%s:%x/len=%d", map[int]string{adnl.ClientToServer: "c2s", adnl.ServerToClient: "s2c"}[dir], mp[:4], len(mp)))
			}
			out = append(out, payload(rng, s))
		}
		return out
	}
	c2s, s2c := gen(adnl.ClientToServer), gen(adnl.ServerToClient)
	overIdx := -1
	if o.nearLimit {
		c2s = append(c2s[:len(c2s)/2], append([][]byte{payload(rng, 8<<20-64)}, c2s[len(c2s)/2:]...)...)
		s2c = append(s2c[:len(s2c)/2], append([][]byte{payload(rng, 8<<20-64)}, s2c[len(s2c)/2:]...)...)
	}
	if o.overLimit > 0 {
		overIdx = len(s2c) / 2
		s2c = append(s2c[:overIdx], append([][]byte{payload(rng, 8<<20-64+o.overLimit)}, s2c[overIdx:]...)...)
	}
	wit := map[string]any{"case": idx, "section": "clean", "server_seed": mon.Hex(id.Seed[:]), "chunking_c2s": modes[0].String(), "chunking_s2c": modes[1].String(),
		"n_c2s": len(c2s), "n_s2c": len(s2c)}
	ip := caseIP()
	ns, _ := nonceSource(rng.Fork("nonce", 0))
	batch := rng.Chance(1, 3)
	srv, ss, err := startServer(ip, id, ns, s2c, true, batch)
	if err != nil {
		w.HarnessError("listen: " + err.Error())
		return
	}
	defer srv.Close()
	prng := rng.Fork("proxy", 0)
	px, err := adnl.NewProxy(ip+":0", srv.Addr(), adnl.Plan{Chunk: modes, MaxPause: time.Duration(rng.Intn(6)) * time.Millisecond / 4, Rand: prng.Uint64})
	if err != nil {
		w.HarnessError("proxy: " + err.Error())
		return
	}
	defer px.Close()
	pr := startProbe()
	defer pr.Stop()

	conn, err, pn := dial(id.Pub[:], px.Addr())
	if pn != nil {
		wit["panic"], wit["stack"] = pn.Value, pn.Stack
		w.Violation("panic@"+pn.Site+"/NewConnection", wit)
		return
	}
	if err != nil {
		if pr.Max() > 500*time.Millisecond {
			w.Inconclusive("handshake failed on a stalled machine")
			return
		}
		ss.mu.Lock()
		hs := ss.hsErr
		ss.mu.Unlock()
		wit["client_error"] = err.Error()
		if hs != nil {
			wit["reference_error"] = hs.Error()
			w.Violation("handshake-rejected-by-reference/"+frameErrClass(hs), wit)
		} else {
			w.Violation("handshake-failed@clean-stream", wit)
		}
		return
	}
	w.Count("handshakes_completed", 1)
	col := collect(conn)
	var sendErr error
	var sendPanic *mon.Panic
	var sentModes []string // how the i-th client packet was built (read after sendDone)
	sendDone := make(chan struct{})
	go func() {
		defer close(sendDone)
		prng := rng.Fork("packet-construction", 0)
		for i, pl := range c2s {
			var e error
			var mode string
			pn := mon.Guard(func() {
				var pk liteclient.Packet
				pk, mode, e = buildPacket(prng, col, pl)
				if e == nil {
					e = conn.Send(pk)
				}
			})
			sentModes = append(sentModes, mode)
			if pn != nil {
				sendPanic = pn
				return
			}
			if e != nil {
				sendErr = fmt.Errorf("Send #%d (%d bytes, packet built as %s): %w", i, len(pl), mode, e)
				return
			}
		}
	}()
	<-sendDone
	if sendPanic != nil {
		wit["panic"], wit["stack"] = sendPanic.Value, sendPanic.Stack
		w.Violation("panic@"+sendPanic.Site+"/Send", wit)
		return
	}
	if sendErr != nil {
		if pr.Max() > 500*time.Millisecond {
			w.Inconclusive("send failed on a stalled machine")
			return
		}
		wit["error"] = sendErr.Error()
		w.Violation("send-error@clean-stream", wit)
		return
	}
	const limit = 20 * time.Second
	t0 := time.Now()
	okS := ss.waitRecv(len(c2s), limit)
	okC := col.waitCount(len(s2c), limit)
	// a run that took longer than tongo's 10 s silence timer may have been cut by the client itself
	slow := func() bool { return pr.Max() > 500*time.Millisecond || time.Since(t0) > 8*time.Second }
	if overIdx >= 0 && !okC {
		okC = true // judged below as a prefix
	}
	time.Sleep(30 * time.Millisecond) // surplus deliveries, if any, show up here
	ss.mu.Lock()
	recv, rerr, rspan, pings := ss.recv, ss.recvErr, ss.errSpan, ss.pings
	ss.mu.Unlock()
	got := col.snapshot()
	w.Count("pings_seen_by_reference", int64(pings))
	w.Seen("chunking", "c2s:"+modes[0].String())
	w.Seen("chunking", "s2c:"+modes[1].String())
	w.Count("proxy_segments", px.Segments[0].Load()+px.Segments[1].Load())

	// client -> server, judged by the reference peer
	if rerr != nil && rerr != io.EOF && len(recv) < len(c2s) && strings.HasPrefix(frameErrClass(rerr), "truncated") && slow() {
		w.Inconclusive("client stream ended early in a run slower than tongo's 10 s silence timer allows")
		return
	}
	if rerr != nil && rerr != io.EOF && len(recv) < len(c2s) {
		wit["reference_error"], wit["stream_span"], wit["frames_before"] = rerr.Error(), []int64{rspan.Start, rspan.End}, len(recv)
		if len(recv) < len(sentModes) {
			wit["rejected_packet_built_as"], wit["rejected_packet_payload_bytes"] = sentModes[len(recv)], len(c2s[len(recv)])
		}
		w.Violation("client-frame-rejected-by-reference/"+frameErrClass(rerr), wit)
		return
	}
	for i := 0; i < len(recv) && i < len(c2s); i++ {
		w.Eval(fmt.Sprintf("c2s/%d/%x", len(c2s[i]), head(c2s[i])))
		w.Seen("sizes_c2s", sizeClass(len(c2s[i])))
		if i < len(sentModes) {
			w.Seen("client_packets_built_as", sentModes[i])
			wit["packet_built_as"] = sentModes[i]
		}
		if !bytes.Equal(recv[i], c2s[i]) {
			wit["index"], wit["sent_len"], wit["got_len"], wit["first_diff"] = i, len(c2s[i]), len(recv[i]), firstDiff(recv[i], c2s[i])
			wit["sent"], wit["got"] = mon.HexTrunc(c2s[i], 96), mon.HexTrunc(recv[i], 96)
			w.Violation("payload-mismatch@client->server/"+sizeClass(len(c2s[i])), wit)
			return
		}
	}
	if len(recv) > len(c2s) {
		wit["extra"] = mon.HexTrunc(recv[len(c2s)], 96)
		w.Violation("surplus-packet@client->server", wit)
		return
	}
	if !okS {
		if slow() {
			w.Inconclusive("clean run slower than tongo's 10 s silence timer allows")
			return
		}
		wit["received"] = len(recv)
		w.Violation("not-delivered@clean/client->server", wit)
		return
	}
	// server -> client, as delivered on Connection.Responses()
	for i := 0; i < len(got) && i < len(s2c); i++ {
		w.Eval(fmt.Sprintf("s2c/%d/%x", len(s2c[i]), head(s2c[i])))
		w.Seen("sizes_s2c", sizeClass(len(s2c[i])))
		if !bytes.Equal(got[i], s2c[i]) {
			wit["index"], wit["sent_len"], wit["got_len"], wit["first_diff"] = i, len(s2c[i]), len(got[i]), firstDiff(got[i], s2c[i])
			wit["sent"], wit["got"] = mon.HexTrunc(s2c[i], 96), mon.HexTrunc(got[i], 96)
			w.Violation("payload-mismatch@server->client/"+sizeClass(len(s2c[i])), wit)
			return
		}
	}
	if len(got) > len(s2c) {
		wit["extra"] = mon.HexTrunc(got[len(s2c)], 96)
		w.Violation("surplus-packet@server->client", wit)
		return
	}
	if overIdx >= 0 {
		// a frame above the limit may be refused (then nothing follows) or delivered intact
		if len(got) != len(s2c) && len(got) != overIdx {
			if len(got) < overIdx && slow() {
				w.Inconclusive("clean run slower than tongo's 10 s silence timer allows")
				return
			}
			wit["delivered"], wit["over_limit_index"] = len(got), overIdx
			if len(got) > overIdx {
				w.Violation("delivered-after-refused-frame@over-limit", wit)
			} else {
				w.Violation("not-delivered@clean/server->client", wit)
			}
			return
		}
		w.Seen("over_limit_outcome", map[bool]string{true: "delivered-intact", false: "refused, nothing after"}[len(got) == len(s2c)])
	} else if !okC {
		if slow() {
			w.Inconclusive("clean run slower than tongo's 10 s silence timer allows")
			return
		}
		wit["delivered"] = len(got)
		w.Violation("not-delivered@clean/server->client", wit)
		return
	}
	w.Count("clean_connections", 1)
	w.Count("clean_packets_c2s", int64(len(c2s)))
	w.Count("clean_packets_s2c", int64(len(got)))
	if idx < 2 {
		w.Sample(map[string]any{"kind": "clean connection", "server_pub": mon.Hex(id.Pub[:]), "chunking": []string{modes[0].String(), modes[1].String()},
			"packets_c2s": len(c2s), "packets_s2c": len(s2c), "first_c2s_payload": mon.HexTrunc(c2s[0], 24), "segments_forwarded": px.Segments[0].Load() + px.Segments[1].Load()})
	}
	close(ss.release)
}

// connectCtxCase: the context handed to NewConnection bounds the connecting (an application
// typically gives it a second or two), not the session: "afterwards every packet sent in either
// direction is received" holds just the same once that context's deadline has passed or it was
// cancelled. Packets travel both ways before the deadline, after it, and again after the client's
// first own ping (3 s into the session); the reference peer reads every frame strictly.
func connectCtxCase(w *mon.Worker, idx int) {
	rng := w.Rng("connect-ctx", idx)
	id := adnl.NewIdentity(rng.Bytes(32))
	ip := caseIP()
	ns, _ := nonceSource(rng.Fork("nonce", 0))
	srv, ss, err := startServer(ip, id, ns, nil, true, false)
	if err != nil {
		w.HarnessError("listen: " + err.Error())
		return
	}
	defer srv.Close()
	pr := startProbe()
	defer pr.Stop()
	budget := time.Duration(rng.Range(600, 1500)) * time.Millisecond
	mode := []string{"deadline", "deadline+cancel-at-once", "deadline+cancel-after-it"}[idx%3]
	wit := map[string]any{"case": idx, "section": "connect-context", "server_seed": mon.Hex(id.Seed[:]), "connect_budget_ms": budget.Milliseconds(), "context": mode}
	ctx, cancel := context.WithTimeout(context.Background(), budget)
	defer cancel()
	t0 := time.Now()
	var conn *liteclient.Connection
	pn := mon.Guard(func() { conn, err = liteclient.NewConnection(ctx, id.Pub[:], srv.Addr()) })
	if pn != nil {
		wit["panic"], wit["stack"] = pn.Value, pn.Stack
		w.Violation("panic@"+pn.Site+"/NewConnection", wit)
		return
	}
	if err != nil {
		if el := time.Since(t0); el > budget/2 || pr.Max() > 100*time.Millisecond {
			w.Inconclusive("handshake did not fit into the connect budget on a loaded machine")
			return
		}
		wit["client_error"] = err.Error()
		w.Violation("handshake-failed@clean-stream", wit)
		return
	}
	if mode == "deadline+cancel-at-once" {
		cancel()
	}
	col := collect(conn)
	var peer *adnl.Peer
	for i := 0; i < 200 && peer == nil; i++ {
		ss.mu.Lock()
		peer = ss.peer
		ss.mu.Unlock()
		if peer == nil {
			time.Sleep(5 * time.Millisecond)
		}
	}
	if peer == nil {
		w.HarnessError("reference server reported no session although the client's handshake completed")
		return
	}
	var c2s, s2c [][]byte
	exchange := func(phase string) bool {
		n := rng.Range(2, 6)
		for i := 0; i < n; i++ {
			up, down := payload(rng, pickSize(rng, false)), payload(rng, pickSize(rng, false))
			var e error
			pn := mon.Guard(func() {
				var pk liteclient.Packet
				if pk, e = liteclient.NewPacket(up); e == nil {
					e = conn.Send(pk)
				}
			})
			wit["phase"], wit["since_connect_ms"] = phase, time.Since(t0).Milliseconds()
			if pn != nil {
				wit["panic"], wit["stack"] = pn.Value, pn.Stack
				w.Violation("panic@"+pn.Site+"/Send", wit)
				return false
			}
			if e != nil {
				if pr.Max() > 500*time.Millisecond {
					w.Inconclusive("send failed on a stalled machine")
					return false
				}
				wit["error"] = e.Error()
				w.Violation("send-error@clean-stream/"+phase, wit)
				return false
			}
			c2s = append(c2s, up)
			if e := peer.Send(ns(), down); e != nil {
				wit["server_write_error"] = e.Error()
				w.Violation("connection-lost@clean-stream/"+phase, wit)
				return false
			}
			s2c = append(s2c, down)
		}
		okS, okC := ss.waitRecv(len(c2s), 8*time.Second), col.waitCount(len(s2c), 8*time.Second)
		ss.mu.Lock()
		recv, rerr := ss.recv, ss.recvErr
		ss.mu.Unlock()
		got := col.snapshot()
		if rerr != nil && rerr != io.EOF {
			wit["reference_error"], wit["frames_before"] = rerr.Error(), len(recv)
			w.Violation("client-frame-rejected-by-reference/"+phase+"/"+frameErrClass(rerr), wit)
			return false
		}
		for i := 0; i < len(recv) && i < len(c2s); i++ {
			if !bytes.Equal(recv[i], c2s[i]) {
				wit["index"], wit["sent"], wit["got"] = i, mon.HexTrunc(c2s[i], 64), mon.HexTrunc(recv[i], 64)
				w.Violation("payload-mismatch@client->server/"+phase, wit)
				return false
			}
		}
		for i := 0; i < len(got) && i < len(s2c); i++ {
			if !bytes.Equal(got[i], s2c[i]) {
				wit["index"], wit["sent"], wit["got"] = i, mon.HexTrunc(s2c[i], 64), mon.HexTrunc(got[i], 64)
				w.Violation("payload-mismatch@server->client/"+phase, wit)
				return false
			}
		}
		if len(recv) > len(c2s) || len(got) > len(s2c) {
			w.Violation("surplus-packet@"+phase, wit)
			return false
		}
		if !okS || !okC {
			if pr.Max() > 500*time.Millisecond {
				w.Inconclusive("packets not delivered within 8 s on a stalled machine")
				return false
			}
			wit["received_by_server"], wit["sent_by_client"], wit["delivered_to_client"], wit["sent_by_server"] = len(recv), len(c2s), len(got), len(s2c)
			w.Violation("not-delivered@clean-stream/"+phase, wit)
			return false
		}
		w.Eval(fmt.Sprintf("connect-ctx/%d/%s/%d/%d", idx, phase, len(c2s), len(s2c)))
		w.Seen("connect_context_phases", mode+"/"+phase)
		return true
	}
	if time.Since(t0) < budget/2 && !exchange("before-the-connect-deadline") {
		return
	}
	time.Sleep(time.Until(t0.Add(budget + 300*time.Millisecond)))
	if mode == "deadline+cancel-after-it" {
		cancel()
	}
	if !exchange("after-the-connect-deadline") {
		return
	}
	time.Sleep(time.Until(t0.Add(pingEvery + 500*time.Millisecond)))
	if !exchange("after-the-first-own-ping") {
		return
	}
	ss.mu.Lock()
	pings := ss.pings
	ss.mu.Unlock()
	w.Count("connect_context_cases", 1)
	w.Count("pings_after_the_connect_deadline", int64(pings))
	close(ss.release)
}

const pingEvery = 3 * time.Second

// quietCase: a healthy session on which nothing but the client's pings and the server's pongs
// travels for more than 11 s; then the server sends packets (10.5..13 s into the session) and the
// client sends one. Every one of them must arrive: a server that answers every ping has given the
// client no reason to drop the session, and what is written around such a moment would be lost.
// The number of handshakes the reference server saw is reported with the verdict.
func quietCase(w *mon.Worker, idx int) {
	rng := w.Rng("quiet", idx)
	id := adnl.NewIdentity(rng.Bytes(32))
	ip := caseIP()
	ns, _ := nonceSource(rng.Fork("nonce", 0))
	srv, ss, err := startServer(ip, id, ns, nil, true, false)
	if err != nil {
		w.HarnessError("listen: " + err.Error())
		return
	}
	defer srv.Close()
	pr := startProbe()
	defer pr.Stop()
	wit := map[string]any{"case": idx, "section": "quiet-session", "server_seed": mon.Hex(id.Seed[:])}
	conn, err, pn := dial(id.Pub[:], srv.Addr())
	if pn != nil || err != nil {
		if pn == nil && pr.Max() > 500*time.Millisecond {
			w.Inconclusive("handshake failed on a stalled machine")
			return
		}
		wit["error"] = fmt.Sprint(err, pn)
		w.Violation("handshake-failed@clean-stream", wit)
		return
	}
	t0 := time.Now()
	col := collect(conn)
	var peer *adnl.Peer
	for i := 0; i < 200 && peer == nil; i++ {
		ss.mu.Lock()
		peer = ss.peer
		ss.mu.Unlock()
		if peer == nil {
			time.Sleep(5 * time.Millisecond)
		}
	}
	if peer == nil {
		w.HarnessError("reference server reported no session although the client's handshake completed")
		return
	}
	// one packet each way at the start (the session works), then silence
	first := payload(rng, rng.Range(1, 100))
	s2c := [][]byte{first}
	peer.Send(ns(), first)
	var c2s [][]byte
	send := func(pl []byte) error {
		pk, e := liteclient.NewPacket(pl)
		if e == nil {
			e = conn.Send(pk)
		}
		c2s = append(c2s, pl)
		return e
	}
	sendErr := send(payload(rng, rng.Range(1, 100)))
	// server packets at 10.5 .. 13 s
	at := []time.Duration{10500 * time.Millisecond}
	for len(at) < 6 {
		at = append(at, at[len(at)-1]+time.Duration(rng.Range(100, 600))*time.Millisecond)
	}
	var writeErr error
	for _, d := range at {
		time.Sleep(time.Until(t0.Add(d)))
		pl := payload(rng, pickSize(rng, false))
		s2c = append(s2c, pl)
		if e := peer.Send(ns(), pl); e != nil && writeErr == nil {
			writeErr = e
		}
	}
	if sendErr == nil {
		sendErr = send(payload(rng, rng.Range(1, 100)))
	}
	okC, okS := col.waitCount(len(s2c), 5*time.Second), ss.waitRecv(len(c2s), 5*time.Second)
	ss.mu.Lock()
	recv, rerr, pings, sessions := ss.recv, ss.recvErr, ss.pings, ss.sessions
	ss.mu.Unlock()
	got := col.snapshot()
	wit["handshakes_seen_by_the_server"], wit["pings_answered"], wit["server_packets_written_at_ms"] = sessions, pings, at
	wit["delivered_to_client"], wit["sent_by_server"], wit["received_by_server"], wit["sent_by_client"] = len(got), len(s2c), len(recv), len(c2s)
	w.Eval(fmt.Sprintf("quiet/%d/%d/%d", idx, len(s2c), len(c2s)))
	for i := 0; i < len(got) && i < len(s2c); i++ {
		if !bytes.Equal(got[i], s2c[i]) {
			wit["index"] = i
			w.Violation("payload-mismatch@server->client/after-a-quiet-spell", wit)
			return
		}
	}
	for i := 0; i < len(recv) && i < len(c2s); i++ {
		if !bytes.Equal(recv[i], c2s[i]) {
			wit["index"] = i
			w.Violation("payload-mismatch@client->server/after-a-quiet-spell", wit)
			return
		}
	}
	if len(got) > len(s2c) || len(recv) > len(c2s) {
		w.Violation("surplus-packet@after-a-quiet-spell", wit)
		return
	}
	if !okC || !okS || sendErr != nil || writeErr != nil || (rerr != nil && rerr != io.EOF) {
		// the client's 10 s silence timer is real time: on a machine that stood still, pongs may truly have been late
		if pr.Max() > 500*time.Millisecond || pings < 3 {
			w.Inconclusive("quiet-session case on a stalled machine")
			return
		}
		wit["send_error"], wit["server_write_error"], wit["reference_error"] = fmt.Sprint(sendErr), fmt.Sprint(writeErr), fmt.Sprint(rerr)
		dir := "server->client"
		if okC && writeErr == nil {
			dir = "client->server"
		}
		w.Violation("not-delivered@healthy-session/ping-pong-only-for-10s/"+dir, wit)
		return
	}
	w.Count("quiet_session_cases", 1)
	w.Count("quiet_session_pings_answered", int64(pings))
	w.Seen("quiet_session_handshakes_seen_by_the_server", fmt.Sprint(sessions))
	close(ss.release)
}

// slowConsumerCase: the application does not take packets from Responses() for a while (2.2..8.5 s,
// before the first packet or in the middle of the sequence) while the server keeps writing and the
// client keeps pinging. Responses() is an unbuffered channel and TCP pushes back, so a correct client
// loses nothing: once the consumer drains, the delivered sequence must equal the sent sequence. The
// stalls stay below the client's 10 s silence timer. The verdict does not depend on the stall being
// exact; a machine that stood still makes the case inconclusive.
func slowConsumerCase(w *mon.Worker, idx int) {
	rng := w.Rng("slowconsumer", idx)
	id := adnl.NewIdentity(rng.Bytes(32))
	ip := caseIP()
	ns, _ := nonceSource(rng.Fork("nonce", 0))
	srv, ss, err := startServer(ip, id, ns, nil, true, false)
	if err != nil {
		w.HarnessError("listen: " + err.Error())
		return
	}
	defer srv.Close()
	pr := startProbe()
	defer pr.Stop()
	wit := map[string]any{"case": idx, "section": "slow-consumer", "server_seed": mon.Hex(id.Seed[:])}
	conn, err, pn := dial(id.Pub[:], srv.Addr())
	if pn != nil || err != nil {
		if pn == nil && pr.Max() > 500*time.Millisecond {
			w.Inconclusive("handshake failed on a stalled machine")
			return
		}
		wit["error"] = fmt.Sprint(err, pn)
		w.Violation("handshake-failed@clean-stream", wit)
		return
	}
	var peer *adnl.Peer
	for i := 0; i < 200 && peer == nil; i++ {
		ss.mu.Lock()
		peer = ss.peer
		ss.mu.Unlock()
		if peer == nil {
			time.Sleep(5 * time.Millisecond)
		}
	}
	if peer == nil {
		w.HarnessError("reference server reported no session although the client's handshake completed")
		return
	}
	n := rng.Range(4, 10)
	// stall before taking packet number stallAt; every third case stalls twice
	stallAt := map[int]time.Duration{}
	total := time.Duration(0)
	pick := func() time.Duration {
		switch (idx + len(stallAt)) % 3 {
		case 0:
			return time.Duration(rng.Range(2200, 3600)) * time.Millisecond
		case 1:
			return time.Duration(rng.Range(5200, 6800)) * time.Millisecond
		}
		return time.Duration(rng.Range(3600, 8500)) * time.Millisecond
	}
	first := 0
	if rng.Intn(2) == 1 {
		first = rng.Range(1, n-1)
	}
	stallAt[first] = pick()
	total += stallAt[first]
	if idx%3 == 2 {
		if second := rng.Range(0, n-1); second != first {
			if d := pick(); total+d < 9*time.Second {
				stallAt[second] = d
				total += d
			}
		}
	}
	col := &collector{tick: make(chan struct{}, 1)}
	go func() {
		k := 0
		for {
			if d, ok := stallAt[k]; ok {
				time.Sleep(d)
			}
			p, ok := <-conn.Responses()
			if !ok {
				return
			}
			col.mu.Lock()
			col.got = append(col.got, p.Payload)
			col.mu.Unlock()
			k++
			select {
			case col.tick <- struct{}{}:
			default:
			}
		}
	}()
	// the server writes all its packets within the first 1.5 s, i.e. while the consumer is away or
	// just before it goes away; small payloads, so that the socket buffers hold them
	var s2c, c2s [][]byte
	var writeErr, sendErr error
	for i := 0; i < n; i++ {
		pl := payload(rng, rng.Range(1, 1500))
		s2c = append(s2c, pl)
		if e := peer.Send(ns(), pl); e != nil && writeErr == nil {
			writeErr = e
		}
		if i%3 == 1 {
			cp := payload(rng, rng.Range(1, 300))
			pk, e := liteclient.NewPacket(cp)
			if e == nil {
				e = conn.Send(pk)
			}
			c2s = append(c2s, cp)
			if e != nil && sendErr == nil {
				sendErr = e
			}
		}
		time.Sleep(time.Duration(rng.Range(0, 150)) * time.Millisecond)
	}
	okC, okS := col.waitCount(len(s2c), total+6*time.Second), ss.waitRecv(len(c2s), 5*time.Second)
	// a dropped packet shifts the sequence; give late ones a moment so that the witness is complete
	time.Sleep(100 * time.Millisecond)
	ss.mu.Lock()
	recv, rerr, pings, sessions := ss.recv, ss.recvErr, ss.pings, ss.sessions
	ss.mu.Unlock()
	got := col.snapshot()
	stalls := map[string]int64{}
	for k, d := range stallAt {
		stalls[fmt.Sprint("before_packet_", k)] = d.Milliseconds()
	}
	wit["consumer_stalls_ms"], wit["handshakes_seen_by_the_server"], wit["pings_answered"] = stalls, sessions, pings
	wit["delivered_to_client"], wit["sent_by_server"], wit["received_by_server"], wit["sent_by_client"] = len(got), len(s2c), len(recv), len(c2s)
	w.Eval(fmt.Sprintf("slow-consumer/%d/%d/%d", idx, len(s2c), len(stallAt)))
	for i := 0; i < len(got) && i < len(s2c); i++ {
		if !bytes.Equal(got[i], s2c[i]) {
			wit["index"] = i
			w.Violation("payload-mismatch@server->client/slow-consumer", wit)
			return
		}
	}
	for i := 0; i < len(recv) && i < len(c2s); i++ {
		if !bytes.Equal(recv[i], c2s[i]) {
			wit["index"] = i
			w.Violation("payload-mismatch@client->server/slow-consumer", wit)
			return
		}
	}
	if len(got) > len(s2c) || len(recv) > len(c2s) {
		w.Violation("surplus-packet@slow-consumer", wit)
		return
	}
	if !okC || !okS || sendErr != nil || writeErr != nil || (rerr != nil && rerr != io.EOF) {
		if pr.Max() > 500*time.Millisecond {
			w.Inconclusive("slow-consumer case on a stalled machine")
			return
		}
		wit["send_error"], wit["server_write_error"], wit["reference_error"] = fmt.Sprint(sendErr), fmt.Sprint(writeErr), fmt.Sprint(rerr)
		dir := "server->client"
		if okC && writeErr == nil {
			dir = "client->server"
		}
		w.Violation("not-delivered@slow-consumer/"+dir, wit)
		return
	}
	w.Count("slow_consumer_cases", 1)
	w.Count("slow_consumer_stalls", int64(len(stallAt)))
	w.Seen("slow_consumer_stall_s", fmt.Sprint(int(total.Seconds())))
	close(ss.release)
}

// concurrentCase: several goroutines send on one connection at the same time. The stream cipher
// state carries across packets, so the frames must reach the socket in the order in which they
// took key stream: the reference peer must read every frame as valid and receive exactly the
// multiset of payloads that was sent (the order between goroutines is free, the order within one
// goroutine is kept).
func concurrentCase(w *mon.Worker, idx int) {
	rng := w.Rng("concurrent", idx)
	id := adnl.NewIdentity(rng.Bytes(32))
	ip := caseIP()
	ns, _ := nonceSource(rng.Fork("nonce", 0))
	srv, ss, err := startServer(ip, id, ns, nil, true, false)
	if err != nil {
		w.HarnessError("listen: " + err.Error())
		return
	}
	defer srv.Close()
	pr := startProbe()
	defer pr.Stop()
	g, per := rng.Range(2, 8), rng.Range(20, 120)
	// every sixth case keeps 2..4 goroutines sending small packets without a pause for 6.5 s: the client's
	// own pings (one every 3 s, built and sent by a goroutine of the client's) then fall into the middle
	// of the application's frames on the same stream, which must stay one continuous key stream
	hammer := idx%6 == 0
	if hammer {
		g = min(g, 4)
	}
	wit := map[string]any{"case": idx, "section": "concurrent-senders", "goroutines": g, "packets_per_goroutine": per, "without_pause_for_6.5s": hammer}
	conn, err, pn := dial(id.Pub[:], srv.Addr())
	if pn != nil {
		wit["panic"] = pn.Value
		w.Violation("panic@"+pn.Site+"/NewConnection", wit)
		return
	}
	if err != nil {
		if pr.Max() > 500*time.Millisecond {
			w.Inconclusive("handshake failed on a stalled machine")
			return
		}
		wit["client_error"] = err.Error()
		w.Violation("handshake-failed@clean-stream", wit)
		return
	}
	_ = collect(conn)
	sent := make([][][]byte, g)
	senders := make([]*mon.Rng, g)
	tagged := func(r *mon.Rng, i, k, n int) []byte {
		// at least 8 bytes: every payload carries (sender, sequence number), so the history is unambiguous
		pl := payload(r, n)
		binary.LittleEndian.PutUint32(pl, uint32(i))
		binary.LittleEndian.PutUint32(pl[4:], uint32(k))
		return pl
	}
	for i := range sent {
		senders[i] = rng.Fork("sender", i)
		for k := 0; k < per && !hammer; k++ {
			sent[i] = append(sent[i], tagged(senders[i], i, k, 8+mon.Pick(senders[i], []int{0, 1, 56, 57, 1000, 4096, 48 << 10, senders[i].Intn(20000)})))
		}
	}
	var wg sync.WaitGroup
	var mu sync.Mutex
	var firstErr error
	var firstPanic *mon.Panic
	t0 := time.Now()
	for i := 0; i < g; i++ {
		wg.Add(1)
		go func(i int) {
			defer wg.Done()
			for k := 0; ; k++ {
				if hammer {
					if time.Since(t0) > 6500*time.Millisecond || k == 400_000 {
						return
					}
					if k%8 == 7 {
						time.Sleep(100 * time.Microsecond) // bursts of 8: the stream is busy about half of the time
					}
					sent[i] = append(sent[i], tagged(senders[i], i, k, 8+senders[i].Intn(33)))
				} else if k == len(sent[i]) {
					return
				}
				pl := sent[i][k]
				var e error
				pn := mon.Guard(func() {
					var pk liteclient.Packet
					pk, e = liteclient.NewPacket(pl)
					if e == nil {
						e = conn.Send(pk)
					}
				})
				mu.Lock()
				if pn != nil && firstPanic == nil {
					firstPanic = pn
				}
				if e != nil && firstErr == nil {
					firstErr = e
				}
				mu.Unlock()
				if pn != nil || e != nil {
					return
				}
			}
		}(i)
	}
	wg.Wait()
	total := 0
	for i := range sent {
		total += len(sent[i])
	}
	if firstPanic != nil {
		wit["panic"], wit["stack"] = firstPanic.Value, firstPanic.Stack
		w.Violation("panic@"+firstPanic.Site+"/Send(concurrent)", wit)
		return
	}
	ok := firstErr == nil && ss.waitRecv(total, 20*time.Second)
	ss.mu.Lock()
	recv, rerr, pings := ss.recv, ss.recvErr, ss.pings
	ss.mu.Unlock()
	if hammer {
		w.Count("pings_in_the_middle_of_concurrent_senders", int64(pings))
		w.Count("concurrent_cases_sending_without_pause_for_6.5s", 1)
	}
	// a stall only matters when something went wrong that a stall can cause (tongo's own 10 s silence
	// timer cutting the session, a wait running out); a run that delivered everything is judged as it is
	if failed := (rerr != nil && rerr != io.EOF) || firstErr != nil || !ok; failed && pr.Max() > 500*time.Millisecond {
		w.Inconclusive("concurrent-senders case on a stalled machine")
		return
	}
	w.Eval(fmt.Sprintf("concurrent/%d/%d/%d", idx, g, per))
	w.Count("concurrent_packets_sent", int64(total))
	if rerr != nil && rerr != io.EOF {
		wit["reference_error"], wit["frames_before"] = rerr.Error(), len(recv)
		w.Violation("client-frame-rejected-by-reference/concurrent-senders/"+frameErrClass(rerr), wit)
		return
	}
	if firstErr != nil {
		wit["error"] = firstErr.Error()
		w.Violation("send-error@clean-stream/concurrent-senders", wit)
		return
	}
	if !ok {
		wit["received"], wit["sent"] = len(recv), total
		w.Violation("not-delivered@clean-stream/concurrent-senders", wit)
		return
	}
	// exact multiset, per-sender order
	next := make([]int, g)
	for n, pl := range recv {
		matched := false
		if len(pl) >= 8 {
			i, k := int(binary.LittleEndian.Uint32(pl)), int(binary.LittleEndian.Uint32(pl[4:]))
			if i < g && k == next[i] && k < len(sent[i]) && bytes.Equal(pl, sent[i][k]) {
				next[i]++
				matched = true
			}
		} else {
			for i := 0; i < g && !matched; i++ {
				if next[i] < len(sent[i]) && bytes.Equal(pl, sent[i][next[i]]) {
					next[i]++
					matched = true
				}
			}
		}
		if !matched {
			wit["index"], wit["got_len"], wit["got"] = n, len(pl), mon.HexTrunc(pl, 64)
			w.Violation("payload-mismatch@client->server/concurrent-senders", wit)
			return
		}
		if n < 3000 {
			w.Eval(fmt.Sprintf("c2s-conc/%d/%x", len(pl), head(pl)))
		}
	}
	if len(recv) > 3000 {
		w.EvalN(int64(len(recv)-3000), fmt.Sprintf("c2s-conc-bulk/%d/%d", idx, len(recv)))
	}
}

func head(b []byte) []byte {
	if len(b) > 8 {
		return b[:8]
	}
	return b
}

// ---------------------------------------------------------------- faulty runs

var regionNames = []string{"length", "nonce", "payload", "checksum"}

// regionOf names the part of a frame (starting at stream offset start, with
// payload length n) that stream offset off falls into.
func regionOf(start int64, n int, off int64) string {
	r := off - start
	switch {
	case r < 4:
		return "length"
	case r < 36:
		return "nonce"
	case r < 36+int64(n):
		return "payload"
	}
	return "checksum"
}

func faultyCase(w *mon.Worker, idx int) {
	rng := w.Rng("faulty", idx)
	id := adnl.NewIdentity(rng.Bytes(32))
	dirPick := rng.Intn(20)
	switch {
	case dirPick < 2:
		faultyHandshake(w, idx, rng, id)
	case dirPick < 3:
		faultyClientFrames(w, idx, rng, id)
	default:
		faultyServerFrames(w, idx, rng, id)
	}
}

func pickKind(rng *mon.Rng) adnl.FaultKind {
	return mon.Pick(rng, []adnl.FaultKind{adnl.BitFlip, adnl.BitFlip, adnl.BitFlip, adnl.ByteSubst, adnl.ByteSubst, adnl.Truncate, adnl.Duplicate, adnl.Delete})
}

// server -> client stream corrupted: tongo is the receiver.
func faultyServerFrames(w *mon.Worker, idx int, rng *mon.Rng, id *adnl.Identity) {
	k := rng.Range(1, 30)
	sizes := make([]int, k)
	script := make([][]byte, k)
	for i := range script {
		sizes[i] = pickSize(rng, rng.Chance(1, 6))
		script[i] = payload(rng, sizes[i])
	}
	// one run in twelve: the fault hits a frame far above 64 KiB (a receiver may treat large frames
	// differently, e.g. stream them), up to the 8 MiB limit
	bigIdx := -1
	if rng.Chance(1, 12) {
		if k > 6 {
			k = 6
			sizes, script = sizes[:k], script[:k]
		}
		bigIdx = rng.Intn(k)
		sizes[bigIdx] = mon.Pick(rng, []int{rng.Range(100<<10, 1<<20), rng.Range(1<<20+1, 3<<20), rng.Range(1<<20+1, 3<<20), 8<<20 - 64})
		script[bigIdx] = payload(rng, sizes[bigIdx])
	}
	// frame 0 is the handshake confirmation (empty payload)
	spans := []adnl.Span{{Start: 0, End: adnl.FrameOverhead}}
	for _, s := range sizes {
		st := spans[len(spans)-1].End
		spans = append(spans, adnl.Span{Start: st, End: st + int64(adnl.FrameOverhead+s)})
	}
	total := spans[len(spans)-1].End
	payloadLen := func(f int) int {
		if f == 0 {
			return 0
		}
		return sizes[f-1]
	}
	target := rng.Intn(k + 1)
	if rng.Chance(1, 8) {
		target = 0
	}
	if bigIdx >= 0 {
		target = bigIdx + 1
	}
	kind := pickKind(rng)
	region := mon.Pick(rng, regionNames)
	if region == "payload" && payloadLen(target) == 0 {
		region = "checksum"
	}
	var off int64
	switch region {
	case "length":
		off = spans[target].Start + int64(rng.Intn(4))
	case "nonce":
		off = spans[target].Start + 4 + int64(rng.Intn(32))
	case "payload":
		off = spans[target].Start + 36 + int64(rng.Intn(payloadLen(target)))
	default:
		off = spans[target].End - 32 + int64(rng.Intn(32))
	}
	f := adnl.Fault{Kind: kind, Dir: adnl.ServerToClient, Offset: off, Bit: uint(rng.Intn(8)), Delta: byte(rng.Range(1, 255)), Len: rng.Range(1, 40)}
	if kind == adnl.Truncate && rng.Chance(1, 4) {
		f.Offset = spans[target].Start // cut exactly on a frame boundary
	}
	modes := [2]adnl.ChunkMode{adnl.ChunkPass, adnl.ChunkMode(rng.Intn(4))}
	if modes[1] == adnl.ChunkOneByte && total > 60<<10 {
		modes[1] = adnl.ChunkRandom
	}
	if bigIdx >= 0 {
		modes[1] = mon.Pick(rng, []adnl.ChunkMode{adnl.ChunkPass, adnl.ChunkCoalesce})
	}
	wit := map[string]any{"case": idx, "section": "faulty/server->client", "server_seed": mon.Hex(id.Seed[:]), "fault": f.Kind.String(), "offset": f.Offset,
		"bit": f.Bit, "delta": f.Delta, "len": f.Len, "target_frame": target, "region": region, "frames": k + 1, "payload_sizes": sizes, "chunking": modes[1].String()}
	ip := caseIP()
	ns, _ := nonceSource(rng.Fork("nonce", 0))
	srv, ss, err := startServer(ip, id, ns, script, false, rng.Chance(1, 3))
	if err != nil {
		w.HarnessError("listen: " + err.Error())
		return
	}
	defer srv.Close()
	prng := rng.Fork("proxy", 0)
	px, err := adnl.NewProxy(ip+":0", srv.Addr(), adnl.Plan{Chunk: modes, MaxPause: time.Duration(rng.Intn(3)) * time.Millisecond / 2, Fault: f, Rand: prng.Uint64})
	if err != nil {
		w.HarnessError("proxy: " + err.Error())
		return
	}
	defer px.Close()
	pr := startProbe()
	defer pr.Stop()

	type dialRes struct {
		conn *liteclient.Connection
		err  error
		pn   *mon.Panic
	}
	dch := make(chan dialRes, 1)
	go func() {
		c, e, p := dial(id.Pub[:], px.Addr())
		dch <- dialRes{c, e, p}
	}()
	var dr dialRes
	released := false
	release := func() {
		if !released {
			released = true
			close(ss.release)
		}
	}
	select {
	case dr = <-dch:
	case <-time.After(1500 * time.Millisecond):
		// the client may be waiting for bytes a corrupted length field promised: end the stream
		release()
		select {
		case dr = <-dch:
		case <-time.After(30 * time.Second):
			w.Inconclusive("NewConnection did not return within 30 s after the stream ended")
			return
		}
	}
	if dr.pn != nil {
		wit["panic"], wit["stack"] = dr.pn.Value, dr.pn.Stack
		w.Violation("panic@"+dr.pn.Site+"/NewConnection(corrupted stream)", wit)
		return
	}
	// which frame did the fault touch first? exact=false: by offsets only; exact=true: by comparing the
	// bytes the server wrote with the bytes the proxy forwarded (an inserted or removed run may coincide
	// with its neighbourhood, which moves the first difference to a later byte).
	touched := func(exact bool) int {
		pos := f.Offset
		if f.Kind == adnl.Duplicate {
			pos = f.Offset + px.ActualLen.Load() // the first byte that differs is where the copy was inserted
		}
		if exact && (f.Kind == adnl.Duplicate || f.Kind == adnl.Delete) {
			ss.mu.Lock()
			peer := ss.peer
			ss.mu.Unlock()
			orig := peer.TxBytes()
			o, l := int(f.Offset), int(px.ActualLen.Load())
			if o+l <= len(orig) {
				var mutated []byte
				if f.Kind == adnl.Duplicate {
					mutated = append(append(append([]byte{}, orig[:o+l]...), orig[o:o+l]...), orig[o+l:]...)
				} else {
					mutated = append(append([]byte{}, orig[:o]...), orig[o+l:]...)
				}
				d := firstDiff(mutated, orig)
				if d < 0 {
					d = len(orig)
				}
				pos = int64(d)
			}
		}
		for i, sp := range spans {
			if pos >= sp.Start && pos < sp.End {
				return i
			}
		}
		return len(spans) // trailing garbage after the last frame
	}
	class := f.Kind.String() + "/" + region
	if dr.err != nil {
		// the confirmation frame was (or seemed) damaged: nothing may ever be delivered; nothing to deliver to.
		t := touched(false)
		w.Eval(fmt.Sprintf("s2c-fault/%s/%d/%d", class, t, f.Offset-spans[target].Start))
		w.Seen("fault_classes", "s2c:"+class)
		if !px.Applied.Load() || t != 0 {
			if pr.Max() > 500*time.Millisecond {
				w.Inconclusive("handshake failed on a stalled machine")
				return
			}
			wit["client_error"], wit["touched_frame"] = dr.err.Error(), t
			w.Violation("handshake-failed@untouched-confirmation", wit)
			return
		}
		w.Count("faulty_handshake_reply_refused", 1)
		release()
		return
	}
	col := collect(dr.conn)
	// wait for everything the proxy will ever forward: the server has written its script, or the fault
	// went through and nothing has moved for a second (a client that has given up on the stream stops
	// reading, and the rest of a large frame then waits in the server's socket buffer for ever)
	for i, last, still := 0, int64(-1), 0; i < 600; i++ {
		select {
		case <-ss.sent:
			i = 600
		case <-time.After(50 * time.Millisecond):
		}
		if f := px.Forwarded[adnl.ServerToClient].Load(); f != last {
			last, still = f, 0
		} else if still++; still >= 20 && px.Applied.Load() {
			break
		}
	}
	if !px.Applied.Load() {
		// give the proxy time to carry the faulty byte
		for i := 0; i < 200 && !px.Applied.Load(); i++ {
			time.Sleep(10 * time.Millisecond)
		}
	}
	if !px.Applied.Load() {
		w.Inconclusive("the proxy never reached the fault offset")
		release()
		return
	}
	t := touched(true)
	wit["touched_frame"] = t
	if t == 0 {
		wit["note"] = "NewConnection succeeded although the confirmation frame was altered"
		w.Violation("corrupted-frame-accepted@handshake-confirmation/"+class, wit)
		release()
		return
	}
	want := t - 1 // frames 1..t-1 are intact and complete
	if want > k {
		want = k
	}
	complete := col.waitCount(want, 15*time.Second)
	time.Sleep(40 * time.Millisecond)
	release()
	select {
	case <-ss.sent:
	case <-time.After(2 * time.Second):
		// the server is still writing into a connection nobody reads any more: end it from the server's side
		ss.mu.Lock()
		peer := ss.peer
		ss.mu.Unlock()
		if peer != nil {
			peer.Close()
		}
		<-ss.sent
	}
	time.Sleep(60 * time.Millisecond) // EOF reaches the client; a wrongly accepted tail would surface now
	got := col.snapshot()
	w.Eval(fmt.Sprintf("s2c-fault/%s/%d/%d", class, t, f.Offset-spans[target].Start))
	w.Seen("fault_classes", "s2c:"+class)
	w.Seen("fault_chunking", modes[1].String())
	if bigIdx >= 0 {
		w.Seen("faults_in_large_frames", sizeClass(sizes[bigIdx])+"/"+class)
		w.Count("faulty_runs_s2c_large_frame", 1)
	}
	for i := range got {
		if i >= want {
			wit["delivered"], wit["allowed"] = len(got), want
			if i < k {
				wit["delivered_equals_sent"] = bytes.Equal(got[i], script[i])
			}
			wit["delivered_payload"] = mon.HexTrunc(got[i], 64)
			if i == t-1 {
				w.Violation("corrupted-frame-accepted@"+class, wit)
			} else {
				w.Violation("delivered-after-corruption@"+class, wit)
			}
			return
		}
		if !bytes.Equal(got[i], script[i]) {
			wit["index"], wit["first_diff"] = i, firstDiff(got[i], script[i])
			w.Violation("payload-mismatch@before-fault/"+class, wit)
			return
		}
	}
	if !complete || len(got) < want {
		if pr.Max() > 500*time.Millisecond {
			w.Inconclusive("intact frames before the fault not delivered within 15 s on a loaded machine")
			return
		}
		wit["delivered"], wit["expected"] = len(got), want
		w.Violation("not-delivered@intact-prefix/"+class, wit)
		return
	}
	w.Count("faulty_runs_s2c", 1)
	w.Count("faulty_intact_prefix_packets", int64(len(got)))
	if idx%50 == 3 {
		w.Sample(map[string]any{"kind": "faulty run", "fault": f.Kind.String(), "region": region, "stream_offset": f.Offset, "touched_frame": t, "frames_sent": k + 1,
			"delivered": len(got), "chunking": modes[1].String()})
	}
}

// client -> server handshake corrupted: the reference must refuse it and the
// client must not report an established connection.
func faultyHandshake(w *mon.Worker, idx int, rng *mon.Rng, id *adnl.Identity) {
	kind := pickKind(rng)
	off := int64(rng.Intn(adnl.HandshakeSize))
	region := "params"
	switch {
	case off < 32:
		region = "key-id"
	case off < 64:
		region = "ephemeral-key"
	case off < 96:
		region = "params-hash"
	}
	f := adnl.Fault{Kind: kind, Dir: adnl.ClientToServer, Offset: off, Bit: uint(rng.Intn(8)), Delta: byte(rng.Range(1, 255)), Len: rng.Range(1, 20)}
	if kind == adnl.Truncate && off == 0 {
		f.Offset = 1
	}
	wit := map[string]any{"case": idx, "section": "faulty/handshake", "server_seed": mon.Hex(id.Seed[:]), "fault": kind.String(), "offset": f.Offset, "bit": f.Bit, "region": region}
	ip := caseIP()
	ns, _ := nonceSource(rng.Fork("nonce", 0))
	srv, ss, err := startServer(ip, id, ns, [][]byte{payload(rng, 10)}, false, false)
	if err != nil {
		w.HarnessError("listen: " + err.Error())
		return
	}
	defer srv.Close()
	px, err := adnl.NewProxy(ip+":0", srv.Addr(), adnl.Plan{Fault: f})
	if err != nil {
		w.HarnessError("proxy: " + err.Error())
		return
	}
	defer px.Close()
	conn, err, pn := dial(id.Pub[:], px.Addr())
	class := "handshake/" + kind.String() + "/" + region
	w.Eval(fmt.Sprintf("c2s-fault/%s/%d/%d", class, off, f.Bit))
	w.Seen("fault_classes", "c2s:"+class)
	if pn != nil {
		wit["panic"], wit["stack"] = pn.Value, pn.Stack
		w.Violation("panic@"+pn.Site+"/NewConnection(corrupted handshake)", wit)
		return
	}
	// what did the reference server make of it? (it decides within its 1.5 s handshake timeout)
	var sessions int
	var hsErr error
	for i := 0; i < 250; i++ {
		ss.mu.Lock()
		sessions, hsErr = ss.sessions, ss.hsErr
		ss.mu.Unlock()
		if sessions > 0 || hsErr != nil {
			break
		}
		time.Sleep(10 * time.Millisecond)
	}
	if sessions > 0 {
		// a copy inserted at or just before the end of the 256 bytes leaves the handshake itself intact
		// (certainly when inserted at 256, by a 1/256 coincidence per byte just before it)
		if kind == adnl.Duplicate && f.Offset+px.ActualLen.Load() > adnl.HandshakeSize-8 {
			w.Count("faulty_handshakes_left_intact_by_the_fault", 1)
			return
		}
		// the top bit of the last byte of the client's Ed25519 ephemeral key is the sign of x; the
		// Montgomery u used for the key agreement depends on y alone, so a handshake that differs
		// in this bit only is the same handshake to every conforming server
		if f.Offset == 63 && ((kind == adnl.BitFlip && f.Bit&7 == 7) || (kind == adnl.ByteSubst && f.Delta == 0x80)) {
			w.Count("faulty_handshakes_left_intact_by_the_fault", 1)
			return
		}
		w.HarnessError(fmt.Sprintf("reference server accepted a corrupted handshake (%s at %d)", kind, f.Offset))
		return
	}
	if err == nil && conn != nil {
		wit["note"] = "NewConnection reported success although the server never confirmed the handshake"
		w.Violation("handshake-success-without-confirmation", wit)
		return
	}
	w.Count("faulty_handshakes_refused", 1)
}

// client -> server frames corrupted: the receiver is the reference peer, so
// this run mostly keeps the reference honest (it must refuse the touched
// frame); tongo must merely not crash.
func faultyClientFrames(w *mon.Worker, idx int, rng *mon.Rng, id *adnl.Identity) {
	k := rng.Range(1, 12)
	var c2s [][]byte
	off := int64(adnl.HandshakeSize)
	var spans []adnl.Span
	for i := 0; i < k; i++ {
		s := pickSize(rng, false)
		c2s = append(c2s, payload(rng, s))
		spans = append(spans, adnl.Span{Start: off, End: off + int64(adnl.FrameOverhead+s)})
		off += int64(adnl.FrameOverhead + s)
	}
	target := rng.Intn(k)
	kind := mon.Pick(rng, []adnl.FaultKind{adnl.BitFlip, adnl.ByteSubst})
	fo := spans[target].Start + int64(rng.Intn(int(spans[target].End-spans[target].Start)))
	f := adnl.Fault{Kind: kind, Dir: adnl.ClientToServer, Offset: fo, Bit: uint(rng.Intn(8)), Delta: byte(rng.Range(1, 255))}
	ip := caseIP()
	ns, _ := nonceSource(rng.Fork("nonce", 0))
	srv, ss, err := startServer(ip, id, ns, nil, false, false)
	if err != nil {
		w.HarnessError("listen: " + err.Error())
		return
	}
	defer srv.Close()
	px, err := adnl.NewProxy(ip+":0", srv.Addr(), adnl.Plan{Fault: f, Chunk: [2]adnl.ChunkMode{adnl.ChunkRandom, adnl.ChunkPass}, Rand: rng.Fork("proxy", 0).Uint64})
	if err != nil {
		w.HarnessError("proxy: " + err.Error())
		return
	}
	defer px.Close()
	pr := startProbe()
	defer pr.Stop()
	conn, err, pn := dial(id.Pub[:], px.Addr())
	if pn == nil && err != nil && pr.Max() > 500*time.Millisecond {
		w.Inconclusive("handshake failed on a stalled machine")
		return
	}
	if pn != nil || err != nil {
		w.Violation("handshake-failed@clean-stream", map[string]any{"case": idx, "error": fmt.Sprint(err, pn)})
		return
	}
	collect(conn)
	for _, pl := range c2s {
		pk, _ := liteclient.NewPacket(pl)
		if pn := mon.Guard(func() { conn.Send(pk) }); pn != nil {
			w.Violation("panic@"+pn.Site+"/Send", map[string]any{"case": idx, "panic": pn.Value, "stack": pn.Stack})
			return
		}
	}
	select {
	case <-ss.peerDone:
	case <-time.After(1500 * time.Millisecond):
		close(ss.release) // a damaged length field can leave the reference waiting for more bytes
		select {
		case <-ss.peerDone:
		case <-time.After(5 * time.Second):
		}
	}
	ss.mu.Lock()
	recv, rerr := ss.recv, ss.recvErr
	ss.mu.Unlock()
	w.Eval(fmt.Sprintf("c2s-fault/frame/%s/%d/%d", kind, target, fo-spans[target].Start))
	w.Seen("fault_classes", "c2s:frame/"+kind.String()+"/"+regionOf(spans[target].Start, len(c2s[target]), fo))
	if len(recv) > target {
		w.HarnessError(fmt.Sprintf("reference peer delivered a corrupted client frame (case %d, frame %d, offset %d)", idx, target, fo))
		return
	}
	if len(recv) == target && rerr == nil {
		w.Inconclusive("reference peer still waiting on a corrupted client frame")
		return
	}
	for i := range recv {
		if !bytes.Equal(recv[i], c2s[i]) {
			w.Violation("payload-mismatch@client->server/"+sizeClass(len(c2s[i])), map[string]any{"case": idx, "index": i})
			return
		}
	}
	w.Count("faulty_runs_c2s_reference_refused", 1)
}

// ---------------------------------------------------------------- ParsePacket, every single-bit flip

func parseCase(w *mon.Worker, idx int) {
	rng := w.Rng("parse", idx)
	key, iv := rng.Bytes(32), rng.Bytes(16)
	sizes := []int{mon.Pick(rng, []int{0, 1, 2}), rng.Range(1, 40), mon.Pick(rng, []int{0, 5, 63, 64, 65})}
	if w.Thorough() && idx%5 == 4 {
		sizes[1] = rng.Range(100, 700)
	}
	rng2 := rng.Fork("order", 0)
	p := rng2.Perm(3)
	sizes = []int{sizes[p[0]], sizes[p[1]], sizes[p[2]]}
	var payloads [][]byte
	var spans []adnl.Span
	var plain []byte
	for _, s := range sizes {
		pl := rng.Bytes(s)
		var n [32]byte
		copy(n[:], rng.Bytes(32))
		fr := adnl.EncodeFrame(n, pl)
		spans = append(spans, adnl.Span{Start: int64(len(plain)), End: int64(len(plain) + len(fr))})
		plain = append(plain, fr...)
		payloads = append(payloads, pl)
	}
	blk, _ := aes.NewCipher(key)
	stream := make([]byte, len(plain))
	cipher.NewCTR(blk, iv).XORKeyStream(stream, plain)
	wit := func() map[string]any {
		return map[string]any{"case": idx, "section": "ParsePacket", "key": mon.Hex(key), "iv": mon.Hex(iv), "stream": mon.Hex(stream), "payload_sizes": sizes}
	}
	parseAll := func(r io.Reader) (got [][]byte, err error, pn *mon.Panic) {
		dec := cipher.NewCTR(blk, iv)
		for i := 0; i < 3; i++ {
			var pk liteclient.Packet
			pn = mon.Guard(func() { pk, err = liteclient.ParsePacket(r, dec) })
			if pn != nil || err != nil {
				return
			}
			got = append(got, pk.Payload)
		}
		return
	}
	// clean stream through awkward readers
	for name, mk := range map[string]func(io.Reader) io.Reader{"whole": func(r io.Reader) io.Reader { return r }, "one-byte": iotest.OneByteReader,
		"half": iotest.HalfReader, "data+err": iotest.DataErrReader} {
		got, err, pn := parseAll(mk(bytes.NewReader(stream)))
		w.Eval(fmt.Sprintf("parse-clean/%d/%s", idx, name))
		if pn != nil {
			m := wit()
			m["panic"], m["reader"] = pn.Value, name
			w.Violation("panic@"+pn.Site+"/ParsePacket(clean)", m)
			return
		}
		if err != nil || len(got) != 3 || !bytes.Equal(got[0], payloads[0]) || !bytes.Equal(got[1], payloads[1]) || !bytes.Equal(got[2], payloads[2]) {
			m := wit()
			m["error"], m["reader"], m["parsed"] = fmt.Sprint(err), name, len(got)
			w.Violation("clean-stream-rejected-or-mangled@ParsePacket/"+name, m)
			return
		}
	}
	mut := make([]byte, len(stream))
	check := func(kind string, pos int, desc any) bool {
		t := 0
		for i, sp := range spans {
			if int64(pos) >= sp.Start && int64(pos) < sp.End {
				t = i
			}
		}
		region := regionOf(spans[t].Start, sizes[t], int64(pos))
		got, err, pn := parseAll(bytes.NewReader(mut))
		w.EvalN(1, fmt.Sprintf("parse-%s/%d/%d/%v", kind, idx, pos, desc))
		w.Seen("parse_fault_classes", kind+"/"+region)
		if pn != nil {
			m := wit()
			m["panic"], m["position"], m["mutation"] = pn.Value, pos, desc
			w.Violation("panic@"+pn.Site+"/ParsePacket("+kind+")/"+region, m)
			return false
		}
		if len(got) > t {
			m := wit()
			m["position"], m["mutation"], m["touched_frame"], m["parsed_without_error"] = pos, desc, t, len(got)
			m["delivered_equals_sent"] = bytes.Equal(got[t], payloads[t])
			w.Violation("corrupted-frame-accepted@ParsePacket/"+kind+"/"+region, m)
			return false
		}
		if err == nil {
			m := wit()
			m["position"] = pos
			w.Violation("no-error@ParsePacket/"+kind+"/"+region, m)
			return false
		}
		if len(got) < t {
			m := wit()
			m["position"], m["touched_frame"], m["parsed"], m["error"] = pos, t, len(got), err.Error()
			w.Violation("intact-frame-rejected@ParsePacket/"+kind+"/"+region, m)
			return false
		}
		for i := range got {
			if !bytes.Equal(got[i], payloads[i]) {
				m := wit()
				m["position"], m["index"] = pos, i
				w.Violation("payload-mismatch@ParsePacket/before-fault", m)
				return false
			}
		}
		return true
	}
	for bit := 0; bit < len(stream)*8; bit++ {
		copy(mut, stream)
		mut[bit/8] ^= 1 << (bit % 8)
		if !check("bitflip", bit/8, bit%8) {
			return
		}
	}
	w.Count("parse_bitflips_exhaustive", int64(len(stream)*8))
	// byte substitutions and truncations: every position, one random value each
	for pos := 0; pos < len(stream); pos++ {
		copy(mut, stream)
		d := byte(rng.Range(1, 255))
		mut[pos] += d
		if !check("bytesubst", pos, d) {
			return
		}
	}
	for cut := 0; cut < len(stream); cut++ {
		t := 0
		for i, sp := range spans {
			if int64(cut) >= sp.Start && int64(cut) < sp.End {
				t = i
			}
		}
		got, err, pn := parseAll(bytes.NewReader(stream[:cut]))
		w.EvalN(1, fmt.Sprintf("parse-trunc/%d/%d", idx, cut))
		if pn != nil || err == nil || len(got) != t {
			m := wit()
			m["cut"], m["parsed"], m["error"], m["panic"] = cut, len(got), fmt.Sprint(err), fmt.Sprint(pn != nil)
			if pn != nil {
				w.Violation("panic@"+pn.Site+"/ParsePacket(truncated)", m)
			} else if len(got) > t {
				w.Violation("corrupted-frame-accepted@ParsePacket/truncate", m)
			} else {
				w.Violation("intact-frame-rejected@ParsePacket/truncate", m)
			}
			return
		}
	}
	w.Seen("parse_fault_classes", "truncate/every-cut")
	if idx == 0 {
		w.Sample(map[string]any{"kind": "ParsePacket exhaustive single-bit flips", "stream_bytes": len(stream), "flips": len(stream) * 8, "payload_sizes": sizes, "stream_head": mon.HexTrunc(stream, 24)})
	}
}

// parseBigCase: ParsePacket over a stream of a small frame, one above 64 KiB and one above 1 MiB,
// with sampled single-bit flips in every region of every frame (the exhaustive sweep of parseCase
// stays with small frames): a receiver that treats large frames differently must reject them all
// the same, and must keep accepting what comes before.
func parseBigCase(w *mon.Worker, idx int) {
	rng := w.Rng("parse-big", idx)
	key, iv := rng.Bytes(32), rng.Bytes(16)
	sizes := []int{rng.Range(0, 40), rng.Range(64<<10+1, 200<<10), rng.Range(1<<20+1, 1<<20+300_000)}
	if idx%2 == 1 {
		sizes[1], sizes[2] = sizes[2], sizes[1]
	}
	var payloads [][]byte
	var spans []adnl.Span
	var plain []byte
	for _, s := range sizes {
		pl := rng.Bytes(s)
		var n [32]byte
		copy(n[:], rng.Bytes(32))
		fr := adnl.EncodeFrame(n, pl)
		spans = append(spans, adnl.Span{Start: int64(len(plain)), End: int64(len(plain) + len(fr))})
		plain = append(plain, fr...)
		payloads = append(payloads, pl)
	}
	blk, _ := aes.NewCipher(key)
	stream := make([]byte, len(plain))
	cipher.NewCTR(blk, iv).XORKeyStream(stream, plain)
	wit := func() map[string]any {
		return map[string]any{"case": idx, "section": "ParsePacket/large-frames", "seed": w.Seed, "key": mon.Hex(key), "iv": mon.Hex(iv), "payload_sizes": sizes,
			"note": "stream = AES-CTR(key, iv) over the three reference frames drawn from Rng(parse-big, case)"}
	}
	parseAll := func(b []byte) (got [][]byte, err error, pn *mon.Panic) {
		dec := cipher.NewCTR(blk, iv)
		r := bytes.NewReader(b)
		for i := 0; i < 3; i++ {
			var pk liteclient.Packet
			pn = mon.Guard(func() { pk, err = liteclient.ParsePacket(r, dec) })
			if pn != nil || err != nil {
				return
			}
			got = append(got, pk.Payload)
		}
		return
	}
	got, err, pn := parseAll(stream)
	w.Eval(fmt.Sprintf("parse-big-clean/%d", idx))
	if pn != nil || err != nil || len(got) != 3 || !bytes.Equal(got[0], payloads[0]) || !bytes.Equal(got[1], payloads[1]) || !bytes.Equal(got[2], payloads[2]) {
		m := wit()
		m["error"], m["panic"], m["parsed"] = fmt.Sprint(err), fmt.Sprint(pn != nil), len(got)
		w.Violation("clean-stream-rejected-or-mangled@ParsePacket/large-frames", m)
		return
	}
	mut := append([]byte(nil), stream...)
	for t, sp := range spans {
		for _, region := range regionNames {
			lo, hi := sp.Start, sp.Start+4
			switch region {
			case "nonce":
				lo, hi = sp.Start+4, sp.Start+36
			case "payload":
				lo, hi = sp.Start+36, sp.End-32
			case "checksum":
				lo, hi = sp.End-32, sp.End
			}
			if hi <= lo {
				continue
			}
			positions := []int64{lo, hi - 1}
			for i := 0; i < 10; i++ {
				positions = append(positions, lo+int64(rng.Intn(int(hi-lo))))
			}
			for _, pos := range positions {
				bit := uint(rng.Intn(8))
				mut[pos] ^= 1 << bit
				got, err, pn := parseAll(mut)
				mut[pos] ^= 1 << bit
				w.EvalN(1, fmt.Sprintf("parse-big-bitflip/%d/%d/%d", idx, pos, bit))
				w.Seen("parse_fault_classes_large_frames", sizeClass(sizes[t])+"/bitflip/"+region)
				m := wit()
				m["position"], m["bit"], m["touched_frame"], m["region"] = pos, bit, t, region
				switch {
				case pn != nil:
					m["panic"] = pn.Value
					w.Violation("panic@"+pn.Site+"/ParsePacket(bitflip)/"+region, m)
					return
				case len(got) > t:
					m["parsed_without_error"], m["delivered_equals_sent"] = len(got), bytes.Equal(got[t], payloads[t])
					w.Violation("corrupted-frame-accepted@ParsePacket/bitflip/"+region+"/"+sizeClass(sizes[t]), m)
					return
				case err == nil:
					w.Violation("no-error@ParsePacket/bitflip/"+region, m)
					return
				case len(got) < t:
					m["parsed"], m["error"] = len(got), err.Error()
					w.Violation("intact-frame-rejected@ParsePacket/bitflip/"+region, m)
					return
				}
				for i := range got {
					if !bytes.Equal(got[i], payloads[i]) {
						m["index"] = i
						w.Violation("payload-mismatch@ParsePacket/before-fault", m)
						return
					}
				}
			}
		}
	}
	w.Count("parse_bitflips_sampled_in_large_frames", 1)
}

// ---------------------------------------------------------------- workers

func runSpan(w *mon.Worker, f func(i int)) {
	// tongo prints on reconnect errors; keep the child's output for runtime fatal errors
	if f, err := os.OpenFile(os.DevNull, os.O_WRONLY, 0); err == nil {
		os.Stdout = f
	}
	var s span
	if err := json.Unmarshal(w.Job, &s); err != nil {
		w.HarnessError("bad job: " + err.Error())
		return
	}
	for i := s.From; i < s.To; i++ {
		w.Begin(fmt.Sprintf("%s#%d", w.Name, i), nil)
		f(i)
		w.End()
	}
}

func workers() map[string]func(*mon.Worker) {
	return map[string]func(*mon.Worker){
		"clean": func(w *mon.Worker) { runSpan(w, func(i int) { cleanCase(w, i, cleanOpts{}) }) },
		"limit": func(w *mon.Worker) { runSpan(w, func(i int) { cleanCase(w, 1_000_000+i, cleanOpts{nearLimit: true}) }) },
		"over": func(w *mon.Worker) {
			runSpan(w, func(i int) { cleanCase(w, 2_000_000+i, cleanOpts{overLimit: 1 + i*977}) })
		},
		"faulty":       func(w *mon.Worker) { runSpan(w, func(i int) { faultyCase(w, i) }) },
		"concurrent":   func(w *mon.Worker) { runSpan(w, func(i int) { concurrentCase(w, i) }) },
		"parse":        func(w *mon.Worker) { runSpan(w, func(i int) { parseCase(w, i) }) },
		"parsebig":     func(w *mon.Worker) { runSpan(w, func(i int) { parseBigCase(w, i) }) },
		"connectctx":   func(w *mon.Worker) { runSpan(w, func(i int) { connectCtxCase(w, i) }) },
		"quiet":        func(w *mon.Worker) { runSpan(w, func(i int) { quietCase(w, i) }) },
		"slowconsumer": func(w *mon.Worker) { runSpan(w, func(i int) { slowConsumerCase(w, i) }) },
	}
}

// ---------------------------------------------------------------- race logs

type raceReport struct {
	Text    string
	Owners  [2]string // "tongo" | "harness" | "other" for the two conflicting accesses
	TopFunc [2]string
}

func parseRaceLogs(dir string) (reports []raceReport) {
	files, _ := filepath.Glob(filepath.Join(dir, "race.*"))
	for _, fn := range files {
		b, err := os.ReadFile(fn)
		if err != nil {
			continue
		}
		for _, blk := range strings.Split(string(b), "==================") {
			if !strings.Contains(blk, "WARNING: DATA RACE") {
				continue
			}
			r := raceReport{Text: strings.TrimSpace(blk)}
			sec := -1
			for _, ln := range strings.Split(blk, "\n") {
				switch {
				case strings.HasPrefix(ln, "Goroutine "):
					sec = 99
				case strings.Contains(ln, " at 0x") && strings.Contains(ln, " by ") && !strings.HasPrefix(ln, " "):
					sec++
				case sec >= 0 && sec < 2 && strings.HasPrefix(ln, "  ") && !strings.HasPrefix(ln, "   ") && r.Owners[sec] == "":
					fn := strings.TrimSpace(ln)
					if i := strings.LastIndex(fn, "("); i > 0 {
						fn = fn[:i]
					}
					switch {
					case strings.Contains(fn, "github.com/tonkeeper/tongo/"):
						r.Owners[sec], r.TopFunc[sec] = "tongo", strings.TrimPrefix(fn, "github.com/tonkeeper/tongo/")
					case strings.HasPrefix(fn, "main.") || strings.HasPrefix(fn, "verifharness/"):
						r.Owners[sec], r.TopFunc[sec] = "harness", fn
					}
				}
			}
			reports = append(reports, r)
		}
	}
	return
}

func judgeRaces(R *mon.Run, dir string) {
	reps := parseRaceLogs(dir)
	R.Count("race_reports", int64(len(reps)))
	seen := map[string]bool{}
	for _, r := range reps {
		fs := []string{r.TopFunc[0], r.TopFunc[1]}
		sort.Strings(fs)
		key := strings.Join(fs, "+")
		if seen[key] {
			continue
		}
		seen[key] = true
		if r.Owners[0] == "tongo" && r.Owners[1] == "tongo" {
			R.Violation("data-race@"+key, map[string]any{"report": mon.Trunc(r.Text, 6000)})
		} else {
			R.HarnessError("race report involving harness code (%s): %s", key, mon.Trunc(r.Text, 1500))
		}
	}
}

// ---------------------------------------------------------------- main

func main() {
	if mon.IsWorker() {
		mon.WorkerMain(workers())
	}
	tier := "quick"
	if len(os.Args) > 1 {
		tier = os.Args[1]
	}
	R := mon.Start("C11", tier)
	R.Level = "fault_enumeration"
	R.Rule = "clean runs: tongo's NewConnection/Send/Responses against the stdlib reference peer through a re-segmenting proxy (client packets come from NewPacket, from Packet literals, with a payload assigned or edited after NewPacket, or are packets taken from Responses() and sent on with another payload: the payload held at the moment of Send is what must arrive); the reference must accept the handshake and every client frame, and the payload sequences must be equal in both directions (one evaluation per compared packet, distinct = distinct (direction, payload)); " +
		"faulty runs: exactly one fault (bit flip, byte substitution, truncation, duplication, deletion) at a chosen offset of the server->client stream (handshake confirmation, or length/nonce/payload/checksum of the k-th frame) or of the client's handshake; the sequence delivered on Responses() must be exactly the frames before the first touched one, each equal to what was sent (one evaluation per faulty run, distinct = distinct (kind, region, frame, offset)); " +
		"ParsePacket: streams of three reference-encrypted frames with every single-bit flip, one substitution per byte, every truncation, and awkward readers (one evaluation per mutated stream); " +
		"large frames: one faulty run in twelve aims its fault at a frame of 100 KiB..8 MiB-64, and ParsePacket streams holding frames above 64 KiB and above 1 MiB get sampled bit flips in every region; " +
		"payloads that begin with the constructor id of tcp.ping / tcp.pong / tcp.authentificationNonce without being such a message travel like any other payload; every sixth concurrent-senders case keeps sending without a pause for 6.5 s so that the client's own pings fall into the middle of the senders' frames; connections made with a connect context of 0.6..1.5 s carry packets both ways before that deadline, after it (context left alone, cancelled at once, or cancelled later) and after the client's first own ping; a session that carries nothing but the client's pings and the server's pongs for more than 10 s still delivers what the server writes at 10.5..13 s and what the client sends then; an application that does not take packets from Responses() for 2.2..8.5 s (before the first packet or between two packets, once or twice) receives the complete sequence afterwards"
	R.Assume("reference peer harness/ref/adnl implements ADNL-over-TCP as described at the top of ref/adnl/adnl.go; pinned only by its self-check (RFC 7748 base point, DH symmetry, client half vs server half) and by interoperating with tongo")
	R.Assume("an accepted corrupted frame by hash collision (2^-256) is ignored; over-limit frames (> 8 MiB) may be refused or delivered intact")
	if err := adnl.SelfCheck(); err != nil {
		R.HarnessError("reference ADNL model failed its self-check: %v", err)
		os.Exit(R.Finish())
	}
	raceDir, err := os.MkdirTemp("", "verif-c11-race-")
	if err != nil {
		R.HarnessError("mkdtemp: %v", err)
		os.Exit(R.Finish())
	}
	defer os.RemoveAll(raceDir)

	var jobs []mon.Job
	split := func(name string, n, per int) {
		for a := 0; a < n; a += per {
			b := a + per
			if b > n {
				b = n
			}
			jobs = append(jobs, mon.Job{Name: name, Input: span{a, b}})
		}
	}
	split("quiet", R.N(1, 3), 1) // the long one (about 14 s) goes first
	split("slowconsumer", R.N(3, 9), 1)
	split("limit", R.N(1, 4), 1)
	split("over", R.N(1, 3), 1)
	split("clean", R.N(20, 300), R.N(3, 12))
	split("concurrent", R.N(6, 80), R.N(2, 8))
	split("faulty", R.N(200, 10000), R.N(20, 100))
	split("parse", R.N(3, 24), 1)
	split("parsebig", R.N(2, 8), 1)
	split("connectctx", R.N(3, 12), 1)
	R.RunJobs(jobs, mon.ChildOpts{Parallel: 14, Timeout: 10 * time.Minute,
		Env: []string{"GORACE=halt_on_error=0 exitcode=0 log_path=" + filepath.Join(raceDir, "race")}},
		func(c mon.Crash) {
			if c.TimedOut {
				R.Inconclusive("child watchdog (10 min) at " + c.Case)
				return
			}
			cls := mon.FatalClass(c.Stderr)
			R.Violation("process-died@"+jobs[c.Job].Name+"/"+cls, map[string]any{"case": c.Case, "exit": c.ExitInfo, "stderr": c.Stderr})
		})
	judgeRaces(R, raceDir)
	os.Exit(R.Finish())
}
