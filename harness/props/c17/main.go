// C17 — account addresses and shard ids keep their meaning across all forms.
// Oracle: harness/ref/addr (bitwise CRC16-XMODEM, own base64/base32 tables,
// prefix arithmetic), pinned at start-up by the literal vectors of tongo's own
// tests and by every address literal in the repository. See DESIGN.md §5 C17.
package main

import (
	"bytes"
	"context"
	"encoding/json"
	"errors"
	"fmt"
	"io"
	"math"
	"math/big"
	"os"
	"runtime"
	"sort"
	"strconv"
	"strings"
	"sync"

	"github.com/tonkeeper/tongo"
	tboc "github.com/tonkeeper/tongo/boc"
	"github.com/tonkeeper/tongo/liteclient"
	"github.com/tonkeeper/tongo/tl"
	"github.com/tonkeeper/tongo/tlb"
	"github.com/tonkeeper/tongo/ton"

	"verifharness/bridge"
	"verifharness/mon"
	"verifharness/ref/addr"
)

var R *mon.Run

// ---------------------------------------------------------------- inputs

type pat struct {
	kind string
	h    [32]byte
}

func ones32() (o [32]byte) {
	for i := range o {
		o[i] = 0xff
	}
	return
}

func rand32(r *mon.Rng) (o [32]byte) {
	copy(o[:], r.Bytes(32))
	return
}

func singleBit(i int, inverted bool) (o [32]byte) {
	if inverted {
		o = ones32()
		o[i/8] &^= 0x80 >> uint(i%8)
	} else {
		o[i/8] |= 0x80 >> uint(i%8)
	}
	return
}

// a few addresses of every kind
func somePatterns(r *mon.Rng, randoms int) []pat {
	out := []pat{{"zeros", [32]byte{}}, {"ones", ones32()},
		{"single-one", singleBit(r.Intn(256), false)}, {"single-zero", singleBit(r.Intn(256), true)}}
	for i := 0; i < randoms; i++ {
		out = append(out, pat{"random", rand32(r)})
	}
	return out
}

func wcClass(wc int32) string {
	switch {
	case wc == 0:
		return "wc=0"
	case wc == -1:
		return "wc=-1"
	case wc < math.MinInt8:
		return "wc<int8"
	case wc > math.MaxInt8:
		return "wc>int8"
	case wc < 0:
		return "wc-negative-int8"
	}
	return "wc-positive-int8"
}

type parser struct {
	name string
	f    func(string) (ton.AccountID, error)
}

// noDNS is the resolver handed to tongo.NewAccountAddressParser: no string of
// this check is a domain name, so it is never expected to be asked.
type noDNS struct{}

func (noDNS) Resolve(context.Context, string) ([]tlb.DNSRecord, error) {
	return nil, errors.New("harness: no DNS in this check")
}

// must turns a Must* wrapper (panics with the parser's error) into a parser;
// a run-time panic (index out of range, nil dereference) stays a panic.
func must(f func(string) ton.AccountID) func(string) (ton.AccountID, error) {
	return func(s string) (id ton.AccountID, err error) {
		defer func() {
			if v := recover(); v != nil {
				if _, rt := v.(runtime.Error); rt {
					panic(v)
				}
				e, ok := v.(error)
				if !ok {
					e = fmt.Errorf("%v", v)
				}
				id, err = ton.AccountID{}, e
			}
		}()
		return f(s), nil
	}
}

// parsers every textual form goes through, whatever its kind: the JSON
// decoder of AccountID, the Must* wrappers and a parser object made with the
// exported constructor.
var anyFormParsers = []parser{
	{"json.Unmarshal(AccountID)", func(s string) (ton.AccountID, error) {
		// decode over a value that already holds another account
		a := ton.AccountID{Workchain: 0x5a5a5a5a, Address: ones32()}
		err := json.Unmarshal([]byte(strconv.Quote(s)), &a)
		return a, err
	}},
	{"ton.MustParseAccountID", must(ton.MustParseAccountID)},
	{"tongo.MustParseAddress", must(func(s string) ton.AccountID { return tongo.MustParseAddress(s).ID })},
	{"tongo.NewAccountAddressParser.ParseAddress", func(s string) (ton.AccountID, error) {
		a, err := tongo.NewAccountAddressParser(noDNS{}).ParseAddress(context.Background(), s)
		return a.ID, err
	}},
}

var friendlyParsers = append([]parser{
	{"ton.AccountIDFromBase64Url", ton.AccountIDFromBase64Url},
	{"ton.ParseAccountID", ton.ParseAccountID},
	{"tongo.ParseAddress", func(s string) (ton.AccountID, error) {
		a, err := tongo.ParseAddress(s)
		return a.ID, err
	}},
}, anyFormParsers...)

var rawParsers = append([]parser{
	{"ton.AccountIDFromRaw", ton.AccountIDFromRaw},
	{"ton.ParseAccountID", ton.ParseAccountID},
	{"tongo.ParseAddress", func(s string) (ton.AccountID, error) {
		a, err := tongo.ParseAddress(s)
		return a.ID, err
	}},
}, anyFormParsers...)

// parseWith runs one parser under the panic monitor and compares.
func parseWith(p parser, s string, want ton.AccountID, form string, wit map[string]any) {
	parseMode(p, s, want, form, wit, true)
}

// parseBeyond does the same for a spelling the statement does not speak about
// (upper-case hex, ...): tongo accepts it today, a disagreement is recorded
// as a coverage counter, never as a violation. A panic is a violation anyway.
func parseBeyond(p parser, s string, want ton.AccountID, form string, wit map[string]any) {
	parseMode(p, s, want, form, wit, false)
}

// beyond records a disagreement on an input outside the statement's quantifier.
func beyond(class string) {
	R.Count("outside_statement_disagreements/"+class, 1)
}

func parseMode(p parser, s string, want ton.AccountID, form string, wit map[string]any, strict bool) {
	var got ton.AccountID
	var err error
	if pn := mon.Guard(func() { got, err = p.f(s) }); pn != nil {
		w := witness(wit, "string", s, "panic", pn.Value)
		R.Violation("panic@"+pn.Site+"/"+p.name+"/"+form, w)
		return
	}
	if !strict {
		R.Count("outside_statement_spellings_tried", 1)
		if err != nil || got != want {
			beyond(form)
		}
		return
	}
	if err != nil {
		R.Violation("rejected@"+p.name+"/"+form+"/"+wcClass(want.Workchain), witness(wit, "string", s, "err", err.Error()))
		return
	}
	if got != want {
		R.Violation("roundtrip-mismatch@"+p.name+"/"+form+"/"+wcClass(want.Workchain),
			witness(wit, "string", s, "got", got.ToRaw(), "want", addr.Raw(want.Workchain, want.Address, false)))
	}
}

func witness(base map[string]any, kv ...any) map[string]any {
	w := map[string]any{}
	for k, v := range base {
		w[k] = v
	}
	for i := 0; i+1 < len(kv); i += 2 {
		w[fmt.Sprint(kv[i])] = kv[i+1]
	}
	return w
}

// ---------------------------------------------------------------- user-friendly form

func flagName(bounce, testnet bool) string {
	s := "bounceable"
	if !bounce {
		s = "non-bounceable"
	}
	if testnet {
		s += "+testnet"
	}
	return s
}

func checkFriendly(wc int8, p pat) {
	id := ton.AccountID{Workchain: int32(wc), Address: p.h}
	for f := 0; f < 4; f++ {
		bounce, testnet := f&1 == 0, f&2 != 0
		fl := flagName(bounce, testnet)
		wit := map[string]any{"workchain": wc, "address": mon.Hex(p.h[:]), "flags": fl}
		want := addr.Friendly(wc, p.h, bounce, testnet, true)
		var got string
		if pn := mon.Guard(func() { got = id.ToHuman(bounce, testnet) }); pn != nil {
			R.Violation("panic@"+pn.Site+"/ToHuman", witness(wit, "panic", pn.Value))
			continue
		}
		R.Eval(fmt.Sprintf("human/%d/%s/%s/%x", wc, p.kind, fl, p.h[:4]))
		R.Seen("flag_combinations", fl)
		R.Seen("friendly_tag_bytes", fmt.Sprintf("0x%02x", tagByte(got)))
		if got != want {
			R.Violation("form-mismatch@ToHuman/"+fl+"/"+wcClass(int32(wc)), witness(wit, "got", got, "want", want))
			continue
		}
		for _, url := range []bool{true, false} {
			s := addr.Friendly(wc, p.h, bounce, testnet, url)
			al := "base64url"
			if !url {
				al = "base64std"
				if !strings.ContainsAny(s, "+/") {
					al = "base64std(no + or / inside)"
				}
			}
			R.Seen("alphabets", al)
			for _, ps := range friendlyParsers {
				parseWith(ps, s, id, "friendly/"+fl+"/"+strings.SplitN(al, "(", 2)[0], wit)
				R.Eval("")
			}
		}
	}
	R.Seen("friendly_workchains", fmt.Sprint(wc))
}

func tagByte(s string) byte {
	b, err := addr.B64Decode(s)
	if err != nil || len(b) == 0 {
		return 0
	}
	return b[0]
}

func sectionFriendly() {
	// every int8 workchain x a few addresses of every kind x 4 flag combinations x 2 alphabets
	for w := math.MinInt8; w <= math.MaxInt8; w++ {
		rng := R.Rng("friendly-wc", w+128)
		for _, p := range somePatterns(rng, 2) {
			checkFriendly(int8(w), p)
		}
	}
	// every single-bit and single-zero address on the two real workchains
	for i := 0; i < 256; i++ {
		checkFriendly(0, pat{"single-one", singleBit(i, false)})
		checkFriendly(-1, pat{"single-zero", singleBit(i, true)})
	}
	n := R.N(2000, 40000)
	for i := 0; i < n; i++ {
		rng := R.Rng("friendly-random", i)
		checkFriendly(int8(rng.Intn(256)), pat{"random", rand32(rng)})
	}
}

// every single-character substitution of the 48-character form must be rejected
func sectionMutations() {
	n := R.N(200, 5000)
	var wg sync.WaitGroup
	jobs := make(chan int)
	for w := 0; w < 8; w++ {
		wg.Add(1)
		go func() {
			defer wg.Done()
			for i := range jobs {
				mutateOne(i)
			}
		}()
	}
	for i := 0; i < n; i++ {
		jobs <- i
	}
	close(jobs)
	wg.Wait()
	R.Count("mutated_addresses", int64(n))
}

func posClass(pos int) string {
	switch {
	case pos < 2:
		return "tag-or-workchain-chars"
	case pos >= 45:
		return "checksum-chars"
	}
	return "hash-chars"
}

func mutateOne(i int) {
	// the Must* wrappers and the parser object share their code with the plain parsers and are slow to refuse
	// (a panic per string): all of them for the first 600 addresses, the four distinct decoders for the rest
	parsers := friendlyParsers
	if i >= 600 {
		parsers = friendlyParsers[:4]
	}
	rng := R.Rng("mutation", i)
	var h [32]byte
	switch i % 8 {
	case 0:
		h = [32]byte{}
	case 1:
		h = ones32()
	default:
		h = rand32(rng)
	}
	wc := int8(rng.Intn(256))
	if i%3 == 0 {
		wc = int8(-(i % 2))
	}
	bounce, testnet, url := rng.Bool(), rng.Bool(), i%2 == 0
	s := addr.Friendly(wc, h, bounce, testnet, url)
	id := ton.AccountID{Workchain: int32(wc), Address: h}
	wit := map[string]any{"original": s, "workchain": wc, "address": mon.Hex(h[:])}
	for _, ps := range parsers {
		parseWith(ps, s, id, "friendly/unmutated", wit)
	}
	al := addr.Alphabet(url)
	tried := 0
	buf := []byte(s)
	for pos := 0; pos < 48; pos++ {
		orig := buf[pos]
		for d := 0; d < 64; d++ {
			if al[d] == orig {
				continue
			}
			buf[pos] = al[d]
			t := string(buf)
			tried++
			if i < 24 {
				// the model itself must see the damage (a substitution touches at most 6 adjacent bits)
				if _, err := addr.ParseFriendly(t); err == nil {
					R.HarnessError("reference accepts a single-character substitution: %s -> %s", s, t)
				}
			}
			for _, ps := range parsers {
				var got ton.AccountID
				var err error
				if pn := mon.Guard(func() { got, err = ps.f(t) }); pn != nil {
					R.Violation("panic@"+pn.Site+"/"+ps.name+"/mutated-friendly", witness(wit, "mutated", t, "position", pos, "panic", pn.Value))
					continue
				}
				if err == nil {
					R.Violation("accepted-mutated@"+ps.name+"/"+posClass(pos),
						witness(wit, "mutated", t, "position", pos, "parsed_as", got.ToRaw()))
				}
			}
		}
		buf[pos] = orig
	}
	if tried != 48*63 {
		R.HarnessError("mutation enumeration produced %d strings, want %d", tried, 48*63)
	}
	R.EvalN(int64(tried), "mut/"+s)
	R.Count("single_char_substitutions_tried", int64(tried))
	R.Count("substitution_parse_calls", int64(tried*len(parsers)))
	if i < 2 {
		buf[17] = al[(strings.IndexByte(al, buf[17])+1)%64]
		R.Sample(map[string]any{"kind": "single-character substitution", "original": s, "mutated_example": string(buf), "substitutions_tried": tried, "parsers": len(parsers), "all_rejected": true})
	}
}

// ---------------------------------------------------------------- raw, JSON, TL

var boundaryWorkchains = []int32{math.MinInt32, math.MinInt32 + 1, -65536, -32769, -32768, -257, -256, -129, -128, -127, -2, -1, 0, 1, 2,
	126, 127, 128, 129, 255, 256, 257, 32767, 32768, 65535, 65536, math.MaxInt32 - 1, math.MaxInt32}

// chunked delivers the bytes in pieces of 1..maxChunk bytes per Read, as a
// socket or a pipe does; a decoder must not assume that one Read fills its buffer.
type chunked struct {
	b        []byte
	rng      *mon.Rng
	maxChunk int
}

func (c *chunked) Read(p []byte) (int, error) {
	if len(c.b) == 0 {
		return 0, io.EOF
	}
	n := 1
	if c.maxChunk > 1 {
		n = c.rng.Range(1, c.maxChunk)
	}
	n = min(n, len(p), len(c.b))
	copy(p, c.b[:n])
	c.b = c.b[n:]
	return n, nil
}

// retained holds what the encoders returned for the previous account: the
// next call must not change it (a shared scratch buffer would).
type retainedForms struct {
	set            bool
	wit            map[string]any
	tl, wantTL     []byte
	js, wantJS     []byte
	human, wantHum string
}

var retained retainedForms

func checkRetained() {
	r := &retained
	if !r.set {
		return
	}
	R.Eval("")
	R.Count("retained_encodings_rechecked", 1)
	if !bytes.Equal(r.tl, r.wantTL) || !bytes.Equal(r.js, r.wantJS) || r.human != r.wantHum {
		R.Violation("encoding-changed-by-a-later-call@AccountID.MarshalTL/MarshalJSON/ToHuman",
			witness(r.wit, "tl_now", mon.Hex(r.tl), "tl_was", mon.Hex(r.wantTL), "json_now", string(r.js), "human_now", r.human, "human_was", r.wantHum))
	}
}

// stale is what the destinations of the decoders hold before decoding:
// decoding a form yields the account of that form, whatever was there before.
func stale(id ton.AccountID) ton.AccountID {
	var s ton.AccountID
	s.Workchain = ^id.Workchain
	for i := range s.Address {
		s.Address[i] = ^id.Address[i]
	}
	return s
}

func checkRaw(wc int32, p pat, rng *mon.Rng) {
	id := ton.AccountID{Workchain: wc, Address: p.h}
	wit := map[string]any{"workchain": wc, "address": mon.Hex(p.h[:])}
	if made := ton.NewAccountID(wc, p.h); made == nil || *made != id {
		R.Violation("constructor-mismatch@NewAccountID/"+wcClass(wc), wit)
	}
	want := addr.Raw(wc, p.h, false)
	var got, str string
	if pn := mon.Guard(func() { got = id.ToRaw(); str = id.String() }); pn != nil {
		R.Violation("panic@"+pn.Site+"/ToRaw", witness(wit, "panic", pn.Value))
		return
	}
	R.Eval(fmt.Sprintf("raw/%d/%s/%x", wc, p.kind, p.h[:4]))
	R.Seen("raw_workchain_classes", wcClass(wc))
	if got != want || str != want {
		R.Violation("form-mismatch@ToRaw/"+wcClass(wc), witness(wit, "got", got, "string", str, "want", want))
		return
	}
	upper := addr.Raw(wc, p.h, true)
	mixed := []byte(want)
	for i := range mixed {
		if rng.Bool() {
			mixed[i] = strings.ToUpper(string(mixed[i]))[0]
		}
	}
	for _, ps := range rawParsers {
		parseWith(ps, want, id, "raw/lower", wit)
		// upper-case hex is not a form the statement names: counted only
		parseBeyond(ps, upper, id, "raw/upper", wit)
		parseBeyond(ps, string(mixed), id, "raw/mixed-case", wit)
		R.EvalN(3, "")
	}
	// short hex: leading zero digits may be left out
	hexpart := want[strings.IndexByte(want, ':')+1:]
	lead := 0
	for lead < 64 && hexpart[lead] == '0' {
		lead++
	}
	if lead > 63 {
		lead = 63 // keep at least one digit
	}
	if lead > 0 {
		cuts := []int{1, lead, rng.Range(1, lead)}
		for _, cut := range cuts {
			short := want[:strings.IndexByte(want, ':')+1] + hexpart[cut:]
			parity := "even-length"
			if len(hexpart[cut:])%2 == 1 {
				parity = "odd-length"
			}
			R.Seen("short_hex_lengths", fmt.Sprint(len(hexpart[cut:])))
			for _, ps := range rawParsers {
				parseWith(ps, short, id, "raw/short-hex/"+parity, wit)
				parseBeyond(ps, strings.ToUpper(short), id, "raw/short-hex-upper/"+parity, wit)
				R.EvalN(2, fmt.Sprintf("short/%d/%d/%x", wc, cut, p.h[28:]))
			}
		}
	}
	// JSON
	var js []byte
	var err error
	if pn := mon.Guard(func() { js, err = json.Marshal(id) }); pn != nil || err != nil {
		R.Violation("error@AccountID.MarshalJSON", witness(wit, "err", fmt.Sprint(err, pn)))
	} else {
		R.Eval("")
		if string(js) != `"`+want+`"` {
			R.Violation("form-mismatch@AccountID.MarshalJSON/"+wcClass(wc), witness(wit, "got", string(js)))
		}
		// the destinations already hold another account
		back := stale(id)
		st := stale(id)
		var holder struct {
			A ton.AccountID
			P *ton.AccountID
		}
		holder.A, holder.P = stale(id), &st
		err1 := json.Unmarshal(js, &back)
		err2 := json.Unmarshal([]byte(`{"A":`+string(js)+`,"P":`+string(js)+`}`), &holder)
		if err1 != nil || err2 != nil {
			R.Violation("rejected@AccountID.UnmarshalJSON/"+wcClass(wc), witness(wit, "json", string(js), "err", fmt.Sprint(err1, err2)))
		} else if back != id || holder.A != id || holder.P == nil || *holder.P != id {
			R.Violation("roundtrip-mismatch@AccountID.JSON/"+wcClass(wc), witness(wit, "json", string(js), "got", back.ToRaw()))
		}
		// a document written with upper-case hex: not a form of the statement, counted only
		R.Count("outside_statement_spellings_tried", 1)
		if json.Unmarshal([]byte(`"`+upper+`"`), &back) != nil || back != id {
			beyond("json/upper")
		}
	}
	// TL
	wantTL := addr.TL(wc, p.h)
	var b1, b2 []byte
	var e1, e2 error
	if pn := mon.Guard(func() { b1, e1 = id.MarshalTL(); b2, e2 = tl.Marshal(id) }); pn != nil || e1 != nil || e2 != nil {
		R.Violation("error@AccountID.MarshalTL", witness(wit, "err", fmt.Sprint(e1, e2, pn)))
		return
	}
	R.Eval("")
	if !bytes.Equal(b1, wantTL) || !bytes.Equal(b2, wantTL) {
		R.Violation("form-mismatch@AccountID.MarshalTL/"+wcClass(wc), witness(wit, "got", mon.Hex(b1), "via_tl.Marshal", mon.Hex(b2), "want", mon.Hex(wantTL)))
		return
	}
	// what the previous account's encoders returned is still what it was
	checkRetained()
	retained = retainedForms{set: true, wit: wit, tl: b1, wantTL: wantTL, js: js, wantJS: []byte(`"` + want + `"`)}
	if wc >= math.MinInt8 && wc <= math.MaxInt8 {
		retained.human, retained.wantHum = id.ToHuman(true, false), addr.Friendly(int8(wc), p.h, true, false, true)
	}
	trailer := []byte{0xde, 0xad, 0xbe, 0xef}
	withTrailer := append(append([]byte{}, wantTL...), trailer...)
	// one Read delivers everything / one byte per Read / 1..5 bytes per Read
	for _, src := range []struct {
		name string
		mk   func() (io.Reader, func() int)
	}{
		{"whole", func() (io.Reader, func() int) { r := bytes.NewReader(withTrailer); return r, r.Len }},
		{"one-byte-reads", func() (io.Reader, func() int) {
			r := &chunked{b: append([]byte{}, withTrailer...), rng: rng, maxChunk: 1}
			return r, func() int { return len(r.b) }
		}},
		{"short-reads", func() (io.Reader, func() int) {
			r := &chunked{b: append([]byte{}, withTrailer...), rng: rng, maxChunk: 5}
			return r, func() int { return len(r.b) }
		}},
	} {
		t1, t2 := stale(id), stale(id)
		rd, left := src.mk()
		R.Seen("tl_reader_kinds", src.name)
		R.Eval("")
		if pn := mon.Guard(func() { e1 = t1.UnmarshalTL(rd) }); pn != nil || e1 != nil {
			R.Violation("rejected@AccountID.UnmarshalTL/"+src.name+"/"+wcClass(wc), witness(wit, "err", fmt.Sprint(e1, pn)))
			return
		}
		if t1 != id || left() != len(trailer) {
			R.Violation("roundtrip-mismatch@AccountID.TL/"+src.name+"/"+wcClass(wc), witness(wit, "got", t1.ToRaw(), "unread_bytes", left()))
		}
		rd, _ = src.mk()
		if pn := mon.Guard(func() { e2 = tl.Unmarshal(rd, &t2) }); pn != nil || e2 != nil || t2 != id {
			R.Violation("roundtrip-mismatch@tl.Unmarshal(AccountID)/"+src.name+"/"+wcClass(wc), witness(wit, "err", fmt.Sprint(e2, pn), "got", t2.ToRaw()))
		}
	}
}

func sectionRaw() {
	for k, wc := range boundaryWorkchains {
		rng := R.Rng("raw-boundary", k)
		for _, p := range somePatterns(rng, 3) {
			checkRaw(wc, p, rng)
		}
		R.Seen("raw_boundary_workchains", fmt.Sprint(wc))
	}
	n := R.N(3000, 60000)
	for i := 0; i < n; i++ {
		rng := R.Rng("raw-random", i)
		wc := int32(uint32(rng.Uint64()))
		if i%4 == 0 {
			wc = int32(int8(rng.Intn(256)))
		}
		h := rand32(rng)
		kind := "random"
		if i%2 == 0 {
			// leading zero digits so that the short forms exist
			z := rng.Range(1, 64)
			for d := 0; d < z; d++ {
				if d%2 == 0 {
					h[d/2] &= 0x0f
				} else {
					h[d/2] &= 0xf0
				}
			}
			kind = "leading-zeros"
		}
		checkRaw(wc, pat{kind, h}, rng)
	}
	checkRetained()
	retained = retainedForms{}
}

// ---------------------------------------------------------------- TL-B

func cellOfBits(b []bool) *tboc.Cell {
	c := tboc.NewCell()
	for _, x := range b {
		if err := c.WriteBit(x); err != nil {
			panic(err)
		}
	}
	return c
}

func bitsEqual(a, b []bool) bool {
	if len(a) != len(b) {
		return false
	}
	for i := range a {
		if a[i] != b[i] {
			return false
		}
	}
	return true
}

func checkTlb(wc int8, p pat) {
	id := ton.AccountID{Workchain: int32(wc), Address: p.h}
	wit := map[string]any{"workchain": wc, "address": mon.Hex(p.h[:])}
	want := addr.AddrStdBits(0, 0, wc, p.h)
	var out *tboc.Cell
	var err error
	var ma tlb.MsgAddress
	if pn := mon.Guard(func() {
		ma = id.ToMsgAddress()
		out = tboc.NewCell()
		err = tlb.Marshal(out, ma)
	}); pn != nil || err != nil {
		R.Violation("error@ToMsgAddress/Marshal", witness(wit, "err", fmt.Sprint(err, pn)))
		return
	}
	R.Eval(fmt.Sprintf("tlb/%d/%s/%x", wc, p.kind, p.h[:4]))
	got := bridge.Bits(out.RawBitString())
	if !bitsEqual(got, want) || out.RefsSize() != 0 {
		R.Violation("form-mismatch@ToMsgAddress/"+wcClass(int32(wc)), witness(wit, "got_bits", len(got), "want_bits", len(want)))
		return
	}
	for _, src := range []struct {
		name string
		c    *tboc.Cell
	}{{"own-encoding", out}, {"reference-encoding", cellOfBits(want)}} {
		var back tlb.MsgAddress
		var id2 *ton.AccountID
		src.c.ResetCounters()
		if pn := mon.Guard(func() {
			err = tlb.Unmarshal(src.c, &back)
			if err == nil {
				id2, err = ton.AccountIDFromTlb(back)
			}
		}); pn != nil || err != nil || id2 == nil {
			R.Violation("rejected@AccountIDFromTlb/"+src.name, witness(wit, "err", fmt.Sprint(err, pn)))
			continue
		}
		R.Eval("")
		if *id2 != id || src.c.BitsAvailableForRead() != 0 {
			R.Violation("roundtrip-mismatch@AccountIDFromTlb/"+src.name+"/"+wcClass(int32(wc)), witness(wit, "got", id2.ToRaw(), "unread_bits", src.c.BitsAvailableForRead()))
		}
	}
	// without the cell: struct -> struct
	if id2, err := ton.AccountIDFromTlb(ma); err != nil || id2 == nil || *id2 != id {
		R.Violation("roundtrip-mismatch@AccountIDFromTlb(ToMsgAddress)/"+wcClass(int32(wc)), wit)
	}
}

func checkAnycast(depth int, pfx uint32, wc int8, h [32]byte, pfxKind string) {
	wit := map[string]any{"depth": depth, "rewrite_pfx": pfx, "workchain": wc, "address": mon.Hex(h[:])}
	src := addr.AddrStdBits(depth, pfx, wc, h)
	c := cellOfBits(src)
	var back tlb.MsgAddress
	var id2 *ton.AccountID
	var err error
	if pn := mon.Guard(func() {
		err = tlb.Unmarshal(c, &back)
		if err == nil {
			id2, err = ton.AccountIDFromTlb(back)
		}
	}); pn != nil || err != nil || id2 == nil {
		R.Violation("rejected@AccountIDFromTlb/anycast", witness(wit, "err", fmt.Sprint(err, pn)))
		return
	}
	R.Eval(fmt.Sprintf("anycast/%d/%s/%x/%x", depth, pfxKind, pfx, h[:4]))
	R.Seen("anycast_depths", fmt.Sprint(depth))
	a := back.AddrStd
	if back.SumType != "AddrStd" || !a.Anycast.Exists || int(a.Anycast.Value.Depth) != depth || a.Anycast.Value.RewritePfx != pfx ||
		a.WorkchainId != wc || [32]byte(a.Address) != h || c.BitsAvailableForRead() != 0 {
		R.Violation("decode-mismatch@MsgAddress/anycast", witness(wit, "decoded_depth", a.Anycast.Value.Depth, "decoded_pfx", a.Anycast.Value.RewritePfx))
		return
	}
	want := ton.AccountID{Workchain: int32(wc), Address: addr.Rewrite(h, depth, pfx)}
	dc := "depth=1"
	switch {
	case depth == 30:
		dc = "depth=30"
	case depth > 24:
		dc = "depth=25..29"
	case depth > 1:
		dc = "depth=2..24"
	}
	if *id2 != want {
		R.Violation("roundtrip-mismatch@AccountIDFromTlb/anycast/"+dc, witness(wit, "got", id2.ToRaw(), "want", addr.Raw(want.Workchain, want.Address, false)))
		return
	}
	// the input value is not changed by the conversion, and converting the struct directly agrees
	if [32]byte(back.AddrStd.Address) != h {
		R.Violation("input-modified@AccountIDFromTlb/anycast", wit)
	}
	m2 := tlb.MsgAddress{SumType: "AddrStd"}
	m2.AddrStd.Anycast.Exists = true
	m2.AddrStd.Anycast.Value = tlb.Anycast{Depth: uint32(depth), RewritePfx: pfx}
	m2.AddrStd.WorkchainId = wc
	m2.AddrStd.Address = h
	if id3, err := ton.AccountIDFromTlb(m2); err != nil || id3 == nil || *id3 != want {
		R.Violation("roundtrip-mismatch@AccountIDFromTlb/anycast-struct/"+dc, wit)
	}
	// re-encoding the decoded address reproduces the source bits
	out := tboc.NewCell()
	if err := tlb.Marshal(out, back); err != nil || !bitsEqual(bridge.Bits(out.RawBitString()), src) {
		R.Violation("form-mismatch@MsgAddress.MarshalTLB/anycast", witness(wit, "err", fmt.Sprint(err)))
	}
}

// ---- decoding over a value that was used before
//
// A TL-B address parsed back is the account it was made from, whatever the
// destination variable held before: programs declare one MsgAddress (or one
// message struct) and decode every address of a block into it.

type tlbStep struct {
	kind  string // "plain", "anycast", "none", "extern"
	bits  []bool
	want  *ton.AccountID // nil for none / extern
	depth int
}

func bitsOfUint(v uint64, n int) []bool {
	out := make([]bool, n)
	for i := 0; i < n; i++ {
		out[i] = v>>uint(n-1-i)&1 == 1
	}
	return out
}

func genTlbStep(rng *mon.Rng, kind string) tlbStep {
	st := tlbStep{kind: kind}
	switch kind {
	case "none":
		st.bits = []bool{false, false}
	case "extern":
		l := rng.Intn(65)
		st.bits = append([]bool{false, true}, bitsOfUint(uint64(l), 9)...)
		for i := 0; i < l; i++ {
			st.bits = append(st.bits, rng.Bool())
		}
	default:
		wc := int8(rng.Intn(256))
		h := rand32(rng)
		var pfx uint32
		if kind == "anycast" {
			st.depth = rng.Range(1, 30)
			pfx = uint32(rng.Uint64()) & (uint32(1)<<uint(st.depth) - 1)
			if rng.Chance(1, 4) {
				pfx = uint32(1)<<uint(st.depth) - 1
			}
		}
		st.bits = addr.AddrStdBits(st.depth, pfx, wc, h)
		st.want = &ton.AccountID{Workchain: int32(wc), Address: addr.Rewrite(h, st.depth, pfx)}
	}
	return st
}

func checkDecodeOver(i int) {
	rng := R.Rng("tlb-decode-over", i)
	kinds := []string{"plain", "anycast", "none", "extern"}
	var steps []tlbStep
	switch i % 4 {
	case 0: // the sequence that matters most: an address with anycast info, then one without
		steps = []tlbStep{genTlbStep(rng, "anycast"), genTlbStep(rng, "plain")}
	case 1:
		steps = []tlbStep{genTlbStep(rng, "anycast"), genTlbStep(rng, "anycast"), genTlbStep(rng, "plain")}
	default:
		for k := 0; k < rng.Range(2, 6); k++ {
			steps = append(steps, genTlbStep(rng, mon.Pick(rng, kinds)))
		}
	}
	via := []string{"tlb.Unmarshal(&MsgAddress)", "tlb.Unmarshal(&struct{A MsgAddress})"}[i/4%2]
	var dst tlb.MsgAddress
	var holder struct{ A tlb.MsgAddress }
	prev := "fresh"
	for k, st := range steps {
		c := cellOfBits(st.bits)
		var err error
		var id2 *ton.AccountID
		var cur *tlb.MsgAddress
		if pn := mon.Guard(func() {
			if i/4%2 == 0 {
				err, cur = tlb.Unmarshal(c, &dst), &dst
			} else {
				err, cur = tlb.Unmarshal(c, &holder), &holder.A
			}
			if err == nil && st.want != nil {
				id2, err = ton.AccountIDFromTlb(*cur)
			}
		}); pn != nil {
			R.Violation("panic@"+pn.Site+"/decode-over", map[string]any{"case": i, "step": k, "panic": pn.Value})
			return
		}
		trans := prev + "-then-" + st.kind
		prev = st.kind
		if st.want == nil {
			continue // addr_none / addr_extern carry no account id: they only change what the destination holds
		}
		wit := map[string]any{"case": i, "step": k, "sequence": trans, "via": via, "want": addr.Raw(st.want.Workchain, st.want.Address, false), "anycast_depth": st.depth}
		R.Eval(fmt.Sprintf("decode-over/%d/%d/%s", i, k, trans))
		R.Seen("tlb_decode_over_sequences", trans)
		R.Count("tlb_decodes_over_a_used_value", 1)
		if err != nil || id2 == nil {
			R.Violation("rejected@AccountIDFromTlb/decode-over/"+trans, witness(wit, "err", fmt.Sprint(err)))
			return
		}
		if *id2 != *st.want {
			R.Violation("roundtrip-mismatch@AccountIDFromTlb/decode-over/"+trans, witness(wit, "got", id2.ToRaw()))
			return
		}
		// the decoded address written again is the address that was read
		out := tboc.NewCell()
		if err := tlb.Marshal(out, *cur); err != nil || !bitsEqual(bridge.Bits(out.RawBitString()), st.bits) {
			R.Violation("form-mismatch@MsgAddress.MarshalTLB/decode-over/"+trans, witness(wit, "err", fmt.Sprint(err)))
			return
		}
	}
}

func sectionTlb() {
	for w := math.MinInt8; w <= math.MaxInt8; w++ {
		rng := R.Rng("tlb-wc", w+128)
		for _, p := range somePatterns(rng, 2) {
			checkTlb(int8(w), p)
		}
	}
	n := R.N(1000, 20000)
	for i := 0; i < n; i++ {
		rng := R.Rng("tlb-random", i)
		checkTlb(int8(rng.Intn(256)), pat{"random", rand32(rng)})
	}
	// nil account id <-> addr_none: the statement speaks about account ids only; counted, a panic is still a violation
	var none tlb.MsgAddress
	var noneID *ton.AccountID
	var noneErr error
	if pn := mon.Guard(func() {
		none = (*ton.AccountID)(nil).ToMsgAddress()
		noneID, noneErr = ton.AccountIDFromTlb(none)
	}); pn != nil {
		R.Violation("panic@"+pn.Site+"/ToMsgAddress(nil)", map[string]any{"panic": pn.Value})
	} else if none.SumType != "AddrNone" || noneID != nil || noneErr != nil {
		beyond("tlb/nil-account-and-addr_none")
	}
	R.Count("outside_statement_spellings_tried", 1)
	R.Eval("tlb/none")
	// anycast: every depth x several prefixes x several addresses
	per := R.N(6, 60)
	for depth := 1; depth <= 30; depth++ {
		for k := 0; k < per; k++ {
			rng := R.Rng("anycast", depth*1000+k)
			var h [32]byte
			switch k % 4 {
			case 0:
				h = rand32(rng)
			case 1:
				h = ones32()
			case 2:
				h = [32]byte{}
			default:
				h = rand32(rng)
			}
			full := uint32(1)<<uint(depth) - 1
			var pfx uint32
			kind := "random"
			switch k % 6 {
			case 0:
				pfx, kind = 0, "zeros"
			case 1:
				pfx, kind = full, "ones"
			case 2:
				pfx, kind = uint32(1)<<uint(depth-1), "top-bit"
			case 3:
				pfx, kind = 1, "low-bit"
			default:
				pfx = uint32(rng.Uint64()) & full
			}
			wc := int8(rng.Intn(256))
			if k%2 == 0 {
				wc = int8(-(k / 2 % 2))
			}
			checkAnycast(depth, pfx, wc, h, kind)
		}
	}
	nd := R.N(2000, 40000)
	for i := 0; i < nd; i++ {
		checkDecodeOver(i)
	}
}

// ---------------------------------------------------------------- shards

func lenClass(n int) string {
	switch {
	case n == 0:
		return "len=0"
	case n == 60:
		return "len=60"
	case n == 63:
		return "len=63"
	case n > 60:
		return "len=61..62"
	}
	return "len=1..59"
}

func addrWithPrefix(prefix uint64, n int, rest [32]byte) [32]byte {
	out := rest
	for i := 0; i < n; i++ {
		m := byte(0x80) >> uint(i%8)
		if prefix>>(63-uint(i))&1 == 1 {
			out[i/8] |= m
		} else {
			out[i/8] &^= m
		}
	}
	return out
}

func flipBit(a [32]byte, i int) [32]byte {
	a[i/8] ^= 0x80 >> uint(i%8)
	return a
}

func plusOne(a [32]byte, delta int64) (out [32]byte, ok bool) {
	v := new(big.Int).SetBytes(a[:])
	v.Add(v, big.NewInt(delta))
	if v.Sign() < 0 || v.BitLen() > 256 {
		return out, false
	}
	v.FillBytes(out[:])
	return out, true
}

func checkShard(prefix uint64, n int, rng *mon.Rng) {
	s := addr.MakeShard(prefix, n)
	lc := lenClass(n)
	wit := map[string]any{"shard": fmt.Sprintf("%016x", s), "prefix_len": n}
	// The statement quantifies over prefix lengths 0..60 (block.tlb: shard_pfx_bits:(#<= 60)).
	// Longer prefixes are tried as well, but a disagreement there is a coverage counter, not a violation.
	viol := func(sig string, w map[string]any) {
		if n > 60 {
			beyond("shard-prefix-longer-than-60/" + strings.SplitN(sig, "@", 2)[0])
			return
		}
		R.Violation(sig, w)
	}
	if n > 60 {
		R.Count("outside_statement_spellings_tried", 1)
	}
	var sid ton.ShardID
	var err error
	var enc int64
	if pn := mon.Guard(func() {
		sid, err = ton.ParseShardID(int64(s))
		if err == nil {
			enc = sid.Encode()
		}
	}); pn != nil {
		R.Violation("panic@"+pn.Site+"/ParseShardID/"+lc, witness(wit, "panic", pn.Value))
		return
	}
	R.Eval(fmt.Sprintf("shard/%016x", s))
	R.Seen("shard_prefix_lengths", fmt.Sprint(n))
	if err != nil {
		viol("rejected@ParseShardID/"+lc, witness(wit, "err", err.Error()))
		return
	}
	if uint64(enc) != s {
		viol("encode-mismatch@ShardID.Encode/"+lc, witness(wit, "got", fmt.Sprintf("%016x", uint64(enc))))
	}
	// the other exported ways to the same value: root-package alias and the Must* wrappers
	for _, alt := range []struct {
		name string
		f    func() (ton.ShardID, error)
	}{
		{"tongo.ParseShardID", func() (ton.ShardID, error) { return tongo.ParseShardID(int64(s)) }},
		{"ton.MustParseShardID", func() (ton.ShardID, error) { return ton.MustParseShardID(int64(s)), nil }},
		{"tongo.MustParseShardID", func() (ton.ShardID, error) { return tongo.MustParseShardID(int64(s)), nil }},
	} {
		var s2 ton.ShardID
		var e2 error
		var enc2 int64
		if pn := mon.Guard(func() {
			if s2, e2 = alt.f(); e2 == nil {
				enc2 = s2.Encode()
			}
		}); pn != nil {
			viol("rejected@"+alt.name+"/"+lc, witness(wit, "panic", pn.Value))
		} else if e2 != nil || uint64(enc2) != s || s2 != sid {
			viol("encode-mismatch@"+alt.name+"/"+lc, witness(wit, "err", fmt.Sprint(e2), "got", fmt.Sprintf("%016x", uint64(enc2))))
		}
	}
	// the textual block id carries the shard id in hex: written and read back it is the same shard
	{
		bid := ton.BlockID{Workchain: int32(int8(rng.Intn(3)) - 1), Shard: s, Seqno: uint32(rng.Uint64())}
		var txt string
		var back ton.BlockID
		var perr error
		if pn := mon.Guard(func() { txt = bid.String(); back, perr = ton.ParseBlockID(txt) }); pn != nil {
			R.Violation("panic@"+pn.Site+"/ParseBlockID(BlockID.String)/"+lc, witness(wit, "panic", pn.Value))
		} else {
			R.Eval("")
			R.Count("block_id_text_roundtrips", 1)
			if s>>60 == 0 {
				R.Count("block_id_text_roundtrips_with_leading_zero_digit", 1)
			}
			if perr != nil {
				viol("rejected@ParseBlockID(BlockID.String)/"+lc, witness(wit, "text", txt, "err", perr.Error()))
			} else if back.Shard != s {
				viol("shard-mismatch@ParseBlockID(BlockID.String)/"+lc, witness(wit, "text", txt, "got", fmt.Sprintf("%016x", back.Shard)))
			}
		}
	}
	// accounts on both sides of every boundary
	type acc struct {
		kind string
		a    [32]byte
	}
	var accs []acc
	lowest := addrWithPrefix(prefix, n, [32]byte{})
	highest := addrWithPrefix(prefix, n, ones32())
	inside := addrWithPrefix(prefix, n, rand32(rng))
	accs = append(accs, acc{"inside/lowest", lowest}, acc{"inside/highest", highest}, acc{"inside/random", inside})
	if b, ok := plusOne(lowest, -1); ok {
		accs = append(accs, acc{"outside/just-below", b})
	}
	if b, ok := plusOne(highest, 1); ok {
		accs = append(accs, acc{"outside/just-above", b})
	}
	for i := 0; i < n; i++ {
		accs = append(accs, acc{"outside/prefix-bit-flipped", flipBit(inside, i)})
	}
	if n < 256 {
		accs = append(accs, acc{"inside/first-free-bit-flipped", flipBit(inside, n)})
	}
	for _, i := range []int{63, 64, 65, 255} { // bits near and beyond the 64-bit word the matcher looks at
		if i >= n {
			accs = append(accs, acc{"inside/late-bit-flipped", flipBit(inside, i)})
		}
	}
	for k := 0; k < 4; k++ {
		accs = append(accs, acc{"random", rand32(rng)})
	}
	for _, a := range accs {
		want := addr.Contains(s, a.a)
		if strings.HasPrefix(a.kind, "inside") != want && a.kind != "random" {
			R.HarnessError("generator/model disagreement for %s shard %016x", a.kind, s)
		}
		var got bool
		id := ton.AccountID{Workchain: int32(int8(rng.Intn(256))), Address: a.a}
		if pn := mon.Guard(func() { got = sid.MatchAccountID(id) }); pn != nil {
			R.Violation("panic@"+pn.Site+"/MatchAccountID/"+lc, witness(wit, "account", mon.Hex(a.a[:])))
			continue
		}
		R.Eval("")
		R.Count("account_matches_checked", 1)
		if want {
			R.Count("account_matches_expected_true", 1)
		}
		if got != want {
			viol("match-mismatch@MatchAccountID/"+lc+"/"+a.kind, witness(wit, "account", mon.Hex(a.a[:]), "got", got, "want", want))
		}
	}
	// block shards: ancestors, descendants, siblings, unrelated
	type blk struct {
		kind string
		t    uint64
	}
	blks := []blk{{"same", s}}
	for j := 0; j < n; j++ {
		blks = append(blks, blk{"ancestor", addr.MakeShard(prefix, j)})
	}
	for j := 1; j <= n; j++ {
		blks = append(blks, blk{"ancestors-sibling", addr.MakeShard(prefix^(1<<(63-uint(j-1))), j)})
	}
	for k := 0; k < 4 && n < 63; k++ {
		m := rng.Range(n+1, 63)
		ext := prefix&^(^uint64(0)>>uint(n)) | rng.Uint64()>>uint(n)
		if n == 0 {
			ext = rng.Uint64()
		}
		blks = append(blks, blk{"descendant", addr.MakeShard(ext, m)})
		if n > 0 {
			blks = append(blks, blk{"descendant-of-sibling", addr.MakeShard(ext^(1<<(63-uint(n-1))), m)})
		}
	}
	for k := 0; k < 4; k++ {
		blks = append(blks, blk{"random", addr.MakeShard(rng.Uint64(), rng.Intn(64))})
	}
	for _, b := range blks {
		want := addr.Intersects(s, b.t)
		var got bool
		bid := ton.BlockID{Workchain: int32(int8(rng.Intn(3)) - 1), Shard: b.t, Seqno: uint32(rng.Uint64())}
		if pn := mon.Guard(func() { got = sid.MatchBlockID(bid) }); pn != nil {
			R.Violation("panic@"+pn.Site+"/MatchBlockID/"+lc, witness(wit, "block_shard", fmt.Sprintf("%016x", b.t)))
			continue
		}
		R.Eval("")
		R.Count("block_matches_checked", 1)
		if got != want {
			if bl, _ := addr.ShardLen(b.t); bl > 60 && n <= 60 {
				// the block's shard id is longer than any shard the statement speaks about
				beyond("shard-prefix-longer-than-60/block-shard")
				continue
			}
			viol("match-mismatch@MatchBlockID/"+lc+"/"+b.kind, witness(wit, "block_shard", fmt.Sprintf("%016x", b.t), "got", got, "want", want))
		}
	}
}

func sectionShards() {
	per := R.N(12, 300)
	for n := 0; n <= 63; n++ {
		for k := 0; k < per; k++ {
			rng := R.Rng("shard", n*10000+k)
			var prefix uint64
			switch k {
			case 0:
				prefix = 0
			case 1:
				prefix = ^uint64(0)
			case 2:
				prefix = 0x5555555555555555
			case 3:
				prefix = 0xaaaaaaaaaaaaaaaa
			default:
				prefix = rng.Uint64()
			}
			if n == 0 && k > 0 {
				break // one shard of length 0
			}
			checkShard(prefix, n, rng)
		}
	}
	if _, err := ton.ParseShardID(0); err == nil {
		R.Violation("accepted@ParseShardID(0)", map[string]any{"shard": 0})
	}
	R.Eval("shard/zero")
}

// ---------------------------------------------------------------- child / parent through ton.GetParents

func identOf(s uint64, wc int32) tlb.ShardIdent {
	n, _ := addr.ShardLen(s)
	return tlb.ShardIdent{ShardPfxBits: tlb.Uint6(n), WorkchainID: wc, ShardPrefix: s &^ (1 << (63 - uint(n)))}
}

func extRef(rng *mon.Rng) tlb.ExtBlkRef {
	return tlb.ExtBlkRef{EndLt: rng.Uint64(), SeqNo: uint32(rng.Uint64()), RootHash: rand32(rng), FileHash: rand32(rng)}
}

func infoOf(s uint64, wc int32, afterSplit, afterMerge bool, rng *mon.Rng) (tlb.BlockInfo, []tlb.ExtBlkRef) {
	var bi tlb.BlockInfo
	bi.Shard = identOf(s, wc)
	bi.AfterSplit, bi.AfterMerge = afterSplit, afterMerge
	if afterMerge {
		p1, p2 := extRef(rng), extRef(rng)
		bi.PrevRef = tlb.BlkPrevInfo{SumType: "PrevBlksInfo", PrevBlksInfo: &struct {
			Prev1 tlb.ExtBlkRef
			Prev2 tlb.ExtBlkRef
		}{p1, p2}}
		return bi, []tlb.ExtBlkRef{p1, p2}
	}
	p := extRef(rng)
	bi.PrevRef = tlb.BlkPrevInfo{SumType: "PrevBlkInfo", PrevBlkInfo: &struct{ Prev tlb.ExtBlkRef }{p}}
	return bi, []tlb.ExtBlkRef{p}
}

// parentsOf calls ton.GetParents and checks everything that is copied through.
func parentsOf(s uint64, wc int32, afterSplit, afterMerge bool, rng *mon.Rng, mode string) ([]uint64, bool) {
	bi, prev := infoOf(s, wc, afterSplit, afterMerge, rng)
	n, _ := addr.ShardLen(s)
	wit := map[string]any{"shard": fmt.Sprintf("%016x", s), "prefix_len": n, "workchain": wc, "mode": mode}
	var ps []ton.BlockIDExt
	var err error
	if pn := mon.Guard(func() { ps, err = ton.GetParents(bi) }); pn != nil {
		R.Violation("panic@"+pn.Site+"/GetParents/"+mode, witness(wit, "panic", pn.Value))
		return nil, false
	}
	if err != nil || len(ps) != len(prev) {
		R.Violation("error@GetParents/"+mode, witness(wit, "err", fmt.Sprint(err), "parents", len(ps)))
		return nil, false
	}
	var out []uint64
	for i, p := range ps {
		if p.Workchain != wc || p.Seqno != prev[i].SeqNo || [32]byte(p.RootHash) != [32]byte(prev[i].RootHash) || [32]byte(p.FileHash) != [32]byte(prev[i].FileHash) {
			R.Violation("parent-fields-mismatch@GetParents/"+mode, witness(wit, "index", i, "got", p.String()))
			return nil, false
		}
		out = append(out, p.Shard)
	}
	return out, true
}

func checkParents(prefix uint64, n int, wc int32, rng *mon.Rng) {
	s := addr.MakeShard(prefix, n)
	lc := lenClass(n)
	wit := map[string]any{"shard": fmt.Sprintf("%016x", s), "prefix_len": n, "workchain": wc}
	R.Seen("getparents_prefix_lengths", fmt.Sprint(n))
	// no split, no merge: the parent lives in the same shard -> observes convertShardIdent
	if got, ok := parentsOf(s, wc, false, false, rng, "plain"); ok {
		R.Eval(fmt.Sprintf("ident/%016x/%d", s, wc))
		if got[0] != s {
			R.Violation("shard-mismatch@convertShardIdent(via GetParents)/"+lc, witness(wit, "got", fmt.Sprintf("%016x", got[0])))
			return
		}
	}
	// after merge: the parents are the two children
	if got, ok := parentsOf(s, wc, false, true, rng, "after-merge"); ok {
		R.Eval(fmt.Sprintf("children/%016x", s))
		l, r := addr.Child(s, false), addr.Child(s, true)
		if got[0] != l || got[1] != r {
			R.Violation("child-mismatch@shardChild(via GetParents after-merge)/"+lc,
				witness(wit, "got", fmt.Sprintf("%016x %016x", got[0], got[1]), "want", fmt.Sprintf("%016x %016x", l, r)))
		} else if n+1 <= 60 {
			// chain: a block of each child that comes right after a split has s as its parent
			for i, c := range got {
				if back, ok := parentsOf(c, wc, true, false, rng, "after-split"); ok {
					R.Eval(fmt.Sprintf("parent-of-child/%016x/%d", s, i))
					R.Count("parent_of_child_chains_observed", 1)
					if back[0] != s {
						R.Violation("inverse-broken@shardParent(shardChild(s))/"+lc,
							witness(wit, "child", fmt.Sprintf("%016x", c), "parent_of_child", fmt.Sprintf("%016x", back[0])))
					}
				}
			}
		}
	}
	// after split: the parent is the shard one bit shorter; merging it back gives s as one of the two children
	if n >= 1 {
		if got, ok := parentsOf(s, wc, true, false, rng, "after-split"); ok {
			R.Eval(fmt.Sprintf("parent/%016x", s))
			want := addr.Parent(s)
			if got[0] != want {
				R.Violation("parent-mismatch@shardParent(via GetParents after-split)/"+lc,
					witness(wit, "got", fmt.Sprintf("%016x", got[0]), "want", fmt.Sprintf("%016x", want)))
			} else if back, ok := parentsOf(got[0], wc, false, true, rng, "after-merge"); ok {
				R.Eval(fmt.Sprintf("child-of-parent/%016x", s))
				R.Count("child_of_parent_chains_observed", 1)
				idx := 0
				if prefix>>(63-uint(n-1))&1 == 1 {
					idx = 1
				}
				if back[idx] != s || back[1-idx] == s {
					R.Violation("inverse-broken@shardChild(shardParent(s))/"+lc,
						witness(wit, "parent", fmt.Sprintf("%016x", got[0]), "children", fmt.Sprintf("%016x %016x", back[0], back[1])))
				}
			}
		}
	}
}

func sectionParents() {
	per := R.N(12, 300)
	for n := 0; n <= 60; n++ {
		for k := 0; k < per; k++ {
			rng := R.Rng("parents", n*10000+k)
			var prefix uint64
			switch k {
			case 0:
				prefix = 0
			case 1:
				prefix = ^uint64(0)
			default:
				prefix = rng.Uint64()
			}
			if n == 0 && k > 2 {
				break
			}
			wc := int32(0)
			switch k % 4 {
			case 1:
				wc = -1
			case 2:
				wc = int32(uint32(rng.Uint64()))
			case 3:
				wc = mon.Pick(rng, boundaryWorkchains)
			}
			checkParents(prefix, n, wc, rng)
		}
	}
}

// ---------------------------------------------------------------- ADNL

func sectionADNL() {
	n := R.N(3000, 60000)
	for i := 0; i < n; i++ {
		rng := R.Rng("adnl", i)
		var a [32]byte
		kind := "random"
		switch {
		case i == 0:
			kind = "zeros"
		case i == 1:
			a, kind = ones32(), "ones"
		case i < 2+256:
			a, kind = singleBit(i-2, false), "single-one"
		case i < 2+512:
			a, kind = singleBit(i-258, true), "single-zero"
		default:
			a = rand32(rng)
		}
		wit := map[string]any{"address": mon.Hex(a[:])}
		want := addr.ADNLToBase32(a)
		var got string
		if pn := mon.Guard(func() { got = liteclient.ADNLAddressToBase32(ton.Bits256(a)) }); pn != nil {
			R.Violation("panic@"+pn.Site+"/ADNLAddressToBase32", witness(wit, "panic", pn.Value))
			continue
		}
		R.Eval(fmt.Sprintf("adnl/%s/%x", kind, a[:6]))
		R.Seen("adnl_address_kinds", kind)
		if got != want {
			R.Violation("form-mismatch@ADNLAddressToBase32/"+kind, witness(wit, "got", got, "want", want))
			continue
		}
		for _, s := range []string{got, got + ".adnl"} {
			var back ton.Bits256
			var err error
			if pn := mon.Guard(func() { back, err = liteclient.ParseADNLAddress(s) }); pn != nil {
				R.Violation("panic@"+pn.Site+"/ParseADNLAddress", witness(wit, "string", s, "panic", pn.Value))
				continue
			}
			R.Eval("")
			if s != got {
				// the ".adnl" suffix is a convenience of the parser, not the base32 form of the statement: counted only
				R.Count("outside_statement_spellings_tried", 1)
				if err != nil || [32]byte(back) != a {
					beyond("adnl/with-.adnl-suffix")
				}
				continue
			}
			if err != nil {
				R.Violation("rejected@ParseADNLAddress/"+kind, witness(wit, "string", s, "err", err.Error()))
			} else if [32]byte(back) != a {
				R.Violation("roundtrip-mismatch@ParseADNLAddress/"+kind, witness(wit, "string", s, "got", mon.Hex(back[:])))
			}
		}
		if i == 2+512 {
			R.Sample(map[string]any{"kind": "adnl", "address": mon.Hex(a[:]), "base32": got})
		}
	}
}

// ---------------------------------------------------------------- encoders called from several goroutines
//
// The forms of an account do not depend on what other goroutines convert at
// the same time (AccountID is a plain value; servers convert addresses on
// every request goroutine).
func sectionConcurrentEncoders() {
	n := R.N(4000, 40000)
	var wg sync.WaitGroup
	for w := 0; w < 8; w++ {
		wg.Add(1)
		go func(w int) {
			defer wg.Done()
			for i := w; i < n; i += 8 {
				rng := R.Rng("concurrent-encoders", i)
				wc := int8(rng.Intn(256))
				h := rand32(rng)
				id := ton.AccountID{Workchain: int32(wc), Address: h}
				bounce, testnet := rng.Bool(), rng.Bool()
				var hum, raw string
				var tlb1, js []byte
				var e1, e2 error
				if pn := mon.Guard(func() {
					hum, raw = id.ToHuman(bounce, testnet), id.ToRaw()
					tlb1, e1 = id.MarshalTL()
					js, e2 = json.Marshal(id)
				}); pn != nil {
					R.Violation("panic@"+pn.Site+"/concurrent-encoders", map[string]any{"panic": pn.Value})
					return
				}
				// look at the results only after other goroutines had a chance to run their own conversions
				runtime.Gosched()
				R.Eval("")
				wantRaw := addr.Raw(int32(wc), h, false)
				if e1 != nil || e2 != nil || hum != addr.Friendly(wc, h, bounce, testnet, true) || raw != wantRaw ||
					!bytes.Equal(tlb1, addr.TL(int32(wc), h)) || string(js) != `"`+wantRaw+`"` {
					R.Violation("form-mismatch@concurrent-encoders", map[string]any{"workchain": wc, "address": mon.Hex(h[:]), "human": hum, "raw": raw, "tl": mon.Hex(tlb1), "json": string(js), "err": fmt.Sprint(e1, e2)})
					return
				}
			}
		}(w)
	}
	wg.Wait()
	R.Count("accounts_encoded_on_8_goroutines", int64(n))
}

// sectionConcurrentParsers: every text parser of the user-friendly and raw forms runs on 8 goroutines at
// once, each goroutine over its own accounts (nothing is shared by the callers): every valid string must
// parse to its own account and a string with one character changed must be refused, exactly as when the
// parsers run alone. A parser that keeps state between calls (a shared checksum object, a scratch buffer)
// shows here and nowhere else.
func sectionConcurrentParsers() {
	n := R.N(24000, 400000)
	var wg sync.WaitGroup
	start := make(chan struct{})
	var mu sync.Mutex
	first := map[string]map[string]any{}
	report := func(sig string, w map[string]any) {
		mu.Lock()
		if _, ok := first[sig]; !ok {
			first[sig] = w
		}
		mu.Unlock()
	}
	const alphabet = "ABCDEFGHIJKLMNOPQRSTUVWXYZabcdefghijklmnopqrstuvwxyz0123456789-_"
	for w := 0; w < 8; w++ {
		wg.Add(1)
		go func(w int) {
			defer wg.Done()
			<-start
			for i := w; i < n; i += 8 {
				rng := R.Rng("concurrent-parsers", i)
				wc := int8(rng.Intn(256))
				h := rand32(rng)
				want := ton.AccountID{Workchain: int32(wc), Address: h}
				hum := addr.Friendly(wc, h, rng.Bool(), rng.Bool(), true)
				raw := addr.Raw(int32(wc), h, false)
				// one character of the friendly form replaced by another letter of the same alphabet
				k := rng.Intn(len(hum))
				c := alphabet[rng.Intn(len(alphabet))]
				for c == hum[k] {
					c = alphabet[rng.Intn(len(alphabet))]
				}
				bad := hum[:k] + string(c) + hum[k+1:]
				for _, ps := range friendlyParsers {
					var got ton.AccountID
					var err error
					if pn := mon.Guard(func() { got, err = ps.f(hum) }); pn != nil {
						report("panic@"+pn.Site+"/concurrent-parsers", map[string]any{"parser": ps.name, "input": hum, "panic": pn.Value})
						return
					}
					if err != nil || got != want {
						report("roundtrip-mismatch@concurrent-parsers/friendly/"+ps.name, map[string]any{"parser": ps.name, "input": hum, "err": fmt.Sprint(err), "got": got.ToRaw(), "want": raw})
					}
					var gb ton.AccountID
					var eb error
					if pn := mon.Guard(func() { gb, eb = ps.f(bad) }); pn == nil && eb == nil {
						// CRC16 catches every change confined to one character (6 bits): it must be refused
						report("accepted-mutated@concurrent-parsers/"+ps.name, map[string]any{"parser": ps.name, "input": bad, "original": hum, "got": gb.ToRaw()})
					}
				}
				for _, ps := range rawParsers {
					var got ton.AccountID
					var err error
					if pn := mon.Guard(func() { got, err = ps.f(raw) }); pn != nil {
						report("panic@"+pn.Site+"/concurrent-parsers", map[string]any{"parser": ps.name, "input": raw, "panic": pn.Value})
						return
					}
					if err != nil || got != want {
						report("roundtrip-mismatch@concurrent-parsers/raw/"+ps.name, map[string]any{"parser": ps.name, "input": raw, "err": fmt.Sprint(err), "got": got.ToRaw(), "want": raw})
					}
				}
				R.Eval("")
			}
		}(w)
	}
	close(start)
	wg.Wait()
	R.Count("accounts_parsed_on_8_goroutines", int64(n))
	sigs := make([]string, 0, len(first))
	for sg := range first {
		sigs = append(sigs, sg)
	}
	sort.Strings(sigs)
	for _, sg := range sigs {
		R.Violation(sg, first[sg])
	}
}

func main() {
	tier := "quick"
	if len(os.Args) > 1 {
		tier = os.Args[1]
	}
	R = mon.Start("C17", tier)
	R.Rule = "each case converts one account id / shard id / ADNL address with tongo and with the reference model (harness/ref/addr) and compares strings, bytes, bits and the values parsed back by every exported parser (ton.AccountIDFromBase64Url, ton.AccountIDFromRaw, ton.ParseAccountID, tongo.ParseAddress, JSON, TL, TL-B); every one of the 48x63 single-character substitutions of a user-friendly form must be rejected by every parser; shard match/encode/child/parent (through ton.GetParents) compared with prefix arithmetic; non-trivial = a form or predicate actually compared; distinct = distinct (value, form) fingerprints; repeated parser calls on the same value count as evaluations only. Added input classes: every text form also goes through json.Unmarshal(AccountID) over a destination that already holds another account, the Must* wrappers and tongo.NewAccountAddressParser; TL bytes are read through readers that deliver 1 byte / 1..5 bytes per Read; JSON/TL/TL-B destinations are pre-filled (decode-over sequences anycast -> plain -> none/extern on one tlb.MsgAddress variable or struct field); what MarshalTL/MarshalJSON/ToHuman returned for the previous account is re-compared after the next call; encoders run on 8 goroutines; BlockID.String -> ParseBlockID keeps the shard id. Spellings the statement does not name (upper/mixed-case hex, the .adnl suffix, nil account <-> addr_none, shard prefixes longer than 60 bits) are tried and only counted (outside_statement_*)"
	R.Assume("reference model harness/ref/addr is correct: pinned at start-up by the literal vectors in tongo's tests and by every user-friendly address literal in the repository")
	R.Assume("anycast: the account id of addr_std with anycast is the address with its first depth bits replaced by rewrite_pfx (what ton.AccountIDFromTlb documents by its code and what the node does when it routes)")
	R.Assume("the bounce flag reported by tongo.ParseAddress is outside the statement and is not compared")
	nvec, err := addr.SelfCheck(mon.RepoRoot())
	if err != nil {
		R.HarnessError("reference address model failed its self-check: %v", err)
		os.Exit(R.Finish())
	}
	R.Extra("model_selfcheck_vectors", nvec)
	R.SetExhaustive(false)
	R.Extra("exhaustive_subspaces", []string{"all 256 int8 workchains (user-friendly form, TL-B)", "all 48x63 single-character substitutions of each sampled 48-character form", "all anycast depths 1..30", "all shard prefix lengths 0..60 (61..63 tried, counted only)", "every prefix-bit boundary of each sampled shard"})

	sectionFriendly()
	sectionMutations()
	sectionRaw()
	sectionTlb()
	sectionShards()
	sectionParents()
	sectionADNL()
	sectionConcurrentEncoders()
	sectionConcurrentParsers()

	h := rand32(R.Rng("sample", 0))
	R.Sample(map[string]any{"kind": "forms of one account", "raw": addr.Raw(-1, h, false), "friendly_bounceable": addr.Friendly(-1, h, true, false, true),
		"friendly_non_bounceable_testnet_std": addr.Friendly(-1, h, false, true, false), "tl": mon.Hex(addr.TL(-1, h))})
	R.Sample(map[string]any{"kind": "shard", "shard": "fb80000000000000", "prefix_len": 8, "left_child": fmt.Sprintf("%016x", addr.Child(0xfb80000000000000, false)),
		"right_child": fmt.Sprintf("%016x", addr.Child(0xfb80000000000000, true)), "parent": fmt.Sprintf("%016x", addr.Parent(0xfb80000000000000))})
	os.Exit(R.Finish())
}
