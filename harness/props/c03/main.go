// C03 — TL-B values survive encode/decode for every shipped type.
// Round-trip monitor with semantic equality over a registry of all exported
// TL-B types generated from the tongo sources. See DESIGN.md §5 C03.
package main

import (
	"bytes"
	"fmt"
	"os"
	"reflect"
	"sort"
	"strings"
	"sync"

	"github.com/tonkeeper/tongo/boc"
	"github.com/tonkeeper/tongo/tlb"

	"verifharness/mon"
	"verifharness/reg"
)

var R *mon.Run

type typeStat struct {
	encoded, encErr, cases int
	exotic, peeked         int
	arms                   map[string]bool
	lastErr                string
}

func roundTrip(e reg.Entry, caseIdx int, st *typeStat) {
	rng := R.Rng("rt/"+e.Name, caseIdx)
	g := reg.NewGen(rng)
	nArms := 1
	if e.Type.Kind() == reflect.Struct {
		if a := reg.Arms(e.Type); len(a) > 0 {
			nArms = len(a)
		}
	}
	if e.Name == "tlb.MsgAddress" {
		nArms = 4
	}
	if e.Name == "tlb.VmStackValue" {
		nArms = 9
	}
	g.TopArm = caseIdx % nArms
	// input classes beyond the plain ones: exotic cells where the schema has ^Cell, longest list forms
	g.Exotic = caseIdx%4 >= 2
	g.LongLists = caseIdx%4 == 1 || caseIdx%4 == 2
	g.Bound = -1
	if caseIdx/nArms < 9 {
		g.Bound = caseIdx / nArms // walk the boundary values first, then random
	}
	var v reflect.Value
	if p := mon.Guard(func() { v = g.New(e.Type) }); p != nil {
		R.HarnessError("generator panicked for %s: %s\n%s", e.Name, p.Value, p.Stack)
		return
	}
	st.cases++
	st.exotic += g.ExoticSeen
	for _, a := range g.Trace {
		st.arms[a] = true
	}
	wit := func() map[string]any {
		return map[string]any{"type": e.Name, "case": caseIdx, "constructors": g.Trace, "value": mon.Trunc(fmt.Sprintf("%+v", v.Interface()), 1500)}
	}
	cell := boc.NewCell()
	var err error
	if p := mon.Guard(func() { err = tlb.Marshal(cell, v.Interface()) }); p != nil {
		w := wit()
		w["panic"], w["stack"] = p.Value, mon.Trunc(p.Stack, 1500)
		R.Violation("panic@Marshal/"+e.Name, w)
		R.Eval("")
		return
	}
	if err != nil {
		st.encErr++
		st.lastErr = err.Error()
		R.Eval("")
		R.Count("encode_errors", 1)
		return
	}
	st.encoded++
	// wire: go through a BOC so that decoding starts from parsed cells as a consumer would
	var src *boc.Cell = cell
	if caseIdx%2 == 1 {
		if b, err := cell.ToBoc(); err == nil {
			if cs, err := boc.DeserializeBoc(b); err == nil && len(cs) == 1 {
				src = cs[0]
			}
		}
	}
	h1, herr := cell.Hash()
	for _, mode := range []string{"plain", "decoder"} {
		out := reflect.New(e.Type)
		src.ResetCounters()
		resetAll(src, 0)
		if p := mon.Guard(func() {
			if mode == "plain" {
				err = tlb.Unmarshal(src, out.Interface())
			} else {
				err = tlb.NewDecoder().Unmarshal(src, out.Interface())
			}
		}); p != nil {
			w := wit()
			w["panic"], w["stack"], w["mode"] = p.Value, mon.Trunc(p.Stack, 1500), mode
			R.Violation("panic@Unmarshal/"+e.Name, w)
			return
		}
		fp := fmt.Sprintf("%s/%s/%d", e.Name, strings.Join(g.Trace, ","), caseIdx)
		R.Eval(fp)
		if err != nil {
			w := wit()
			w["err"], w["mode"] = err.Error(), mode
			R.Violation("decode-failed@"+e.Name, w)
			return
		}
		if d := reg.Equal(v, out.Elem(), reg.EqOpts{ReverseVmStack: true}); d != "" {
			w := wit()
			w["diff"], w["mode"] = d, mode
			w["decoded"] = mon.Trunc(fmt.Sprintf("%+v", out.Elem().Interface()), 1500)
			cls := "value"
			if strings.HasSuffix(d, ".SumType") || strings.Contains(d, ".SumType:") {
				cls = "constructor"
			}
			R.Violation("roundtrip-mismatch@"+e.Name+"/"+cls, w)
			return
		}
		// encoding the decoded value again gives the same hash
		if herr == nil && mode == "plain" && e.Type != reflect.TypeOf(tlb.VmStack{}) {
			c2 := boc.NewCell()
			var err2 error
			if p := mon.Guard(func() { err2 = tlb.Marshal(c2, out.Elem().Interface()) }); p != nil {
				w := wit()
				w["panic"] = p.Value
				R.Violation("panic@Marshal(decoded)/"+e.Name, w)
				return
			}
			if err2 != nil {
				w := wit()
				w["err"] = err2.Error()
				R.Violation("reencode-failed@"+e.Name, w)
				return
			}
			h2, _ := c2.Hash()
			if !bytes.Equal(h1, h2) {
				w := wit()
				R.Violation("rehash-mismatch@"+e.Name, w)
				return
			}
			// an application reads the cells and bit strings of the decoded value in place (peeks at an
			// op-code, walks to a reference): that moves read cursors but leaves the TL-B value what it
			// was, so encoding it once more gives the same cell
			if n := peekAll(out.Elem(), 0); n > 0 {
				st.peeked += n
				c3 := boc.NewCell()
				var err3 error
				if p := mon.Guard(func() { err3 = tlb.Marshal(c3, out.Elem().Interface()) }); p != nil || err3 != nil {
					w := wit()
					w["err"] = fmt.Sprint(err3, p)
					R.Violation("reencode-failed@after-read/"+e.Name, w)
					return
				}
				if h3, _ := c3.Hash(); !bytes.Equal(h1, h3) {
					w := wit()
					w["reencoded"] = mon.Trunc(c3.ToString(), 600)
					w["first"] = mon.Trunc(cell.ToString(), 600)
					R.Violation("rehash-mismatch@after-read/"+e.Name, w)
					return
				}
			}
		}
	}
	// encoding is a function of the value: the value that has been encoded (and decoded from) once
	// encodes to the same cell again
	if herr == nil {
		c4 := boc.NewCell()
		var err4 error
		if p := mon.Guard(func() { err4 = tlb.Marshal(c4, v.Interface()) }); p != nil || err4 != nil {
			w := wit()
			w["err"] = fmt.Sprint(err4, p)
			R.Violation("second-encode-failed@"+e.Name, w)
			return
		}
		if h4, _ := c4.Hash(); !bytes.Equal(h1, h4) {
			w := wit()
			R.Violation("second-encode-differs@"+e.Name, w)
		}
	}
}

var (
	tCell      = reflect.TypeOf(boc.Cell{})
	tAny       = reflect.TypeOf(tlb.Any{})
	tBitString = reflect.TypeOf(boc.BitString{})
	tSnake     = reflect.TypeOf(tlb.SnakeData{})
)

// peekAll reads, in place, from every cell and bit string an application can
// reach through the exported fields of a decoded value: up to 32 bits and one
// reference. Returns the number of places read.
func peekAll(v reflect.Value, depth int) int {
	if depth > 40 || !v.IsValid() {
		return 0
	}
	t := v.Type()
	switch {
	case (t == tCell || t == tAny) && v.CanAddr():
		c := v.Addr().Convert(reflect.PointerTo(tCell)).Interface().(*boc.Cell)
		n := c.BitsAvailableForRead()
		if n > 32 {
			n = 32
		}
		read := 0
		if n > 0 {
			_, _ = c.ReadUint(n)
			read = 1
		}
		if c.RefsAvailableForRead() > 0 {
			_, _ = c.NextRef()
			read = 1
		}
		return read
	case (t == tBitString || t == tSnake) && v.CanAddr():
		b := v.Addr().Convert(reflect.PointerTo(tBitString)).Interface().(*boc.BitString)
		n := b.BitsAvailableForRead()
		if n > 32 {
			n = 32
		}
		if n > 0 {
			_, _ = b.ReadUint(n)
			return 1
		}
		return 0
	}
	n := 0
	switch v.Kind() {
	case reflect.Struct:
		for i := 0; i < v.NumField(); i++ {
			if t.Field(i).IsExported() {
				n += peekAll(v.Field(i), depth+1)
			}
		}
	case reflect.Pointer:
		if !v.IsNil() {
			n += peekAll(v.Elem(), depth+1)
		}
	case reflect.Slice, reflect.Array:
		if t.Elem().Kind() == reflect.Uint8 {
			return 0
		}
		for i := 0; i < v.Len(); i++ {
			n += peekAll(v.Index(i), depth+1)
		}
	}
	return n
}

// resetAll rewinds the read cursors of a whole tree (decoding moves them).
func resetAll(c *boc.Cell, d int) {
	if d > 64 {
		return
	}
	c.ResetCounters()
	for _, r := range c.Refs() {
		resetAll(r, d+1)
	}
}

// sectionVmStack: the list convention of the VM stack API. Values pushed with
// Put in the order a1..ak (ak ends on top) make the argument list top-first;
// a decoded stack lists bottom-first. So decoding the encoding of a stack built
// with Put gives the values in the order they were pushed - through the TL-B
// codec and through the TL wrapper (MarshalTL / UnmarshalTL) alike. Also the
// helper constructors TlbStructToVmCell / TlbStructToVmCellSlice: what they
// wrap reads back equal.
func sectionVmStack() {
	tv := reflect.TypeOf(tlb.VmStackValue{})
	for k := 0; k < R.N(300, 30000); k++ {
		rng := R.Rng("vmput", k)
		n := rng.Intn(7)
		vals := make([]reflect.Value, n)
		var s tlb.VmStack
		for i := range vals {
			g := reg.NewGen(rng)
			g.Exotic = k%2 == 1
			vals[i] = g.New(tv)
			s.Put(vals[i].Interface().(tlb.VmStackValue))
		}
		wit := map[string]any{"case": k, "depth": n, "pushed": mon.Trunc(fmt.Sprintf("%+v", s), 1200)}
		c := boc.NewCell()
		var err error
		if p := mon.Guard(func() { err = tlb.Marshal(c, s) }); p != nil || err != nil {
			wit["err"] = fmt.Sprint(err, p)
			R.Violation("error@Marshal/VmStack(Put)", wit)
			continue
		}
		var tl []byte
		if p := mon.Guard(func() { tl, err = s.MarshalTL() }); p != nil || err != nil {
			wit["err"] = fmt.Sprint(err, p)
			R.Violation("error@VmStack.MarshalTL", wit)
			continue
		}
		var viaTLB, viaTL tlb.VmStack
		if p := mon.Guard(func() { err = tlb.Unmarshal(c, &viaTLB) }); p != nil || err != nil {
			wit["err"] = fmt.Sprint(err, p)
			R.Violation("decode-failed@VmStack(Put)", wit)
			continue
		}
		if p := mon.Guard(func() { err = viaTL.UnmarshalTL(bytes.NewReader(tl)) }); p != nil || err != nil {
			wit["err"] = fmt.Sprint(err, p)
			R.Violation("decode-failed@VmStack.UnmarshalTL", wit)
			continue
		}
		R.Eval(fmt.Sprintf("vmput/%d/%d", n, k))
		R.Seen("vm_put_depths", fmt.Sprint(n))
		for name, got := range map[string]tlb.VmStack{"tlb": viaTLB, "tl": viaTL} {
			if len(got) != n {
				wit["got_len"], wit["via"] = len(got), name
				R.Violation("put-order-mismatch@VmStack/"+name, wit)
				break
			}
			for i := range vals {
				gv := reflect.ValueOf(&got[i]).Elem()
				if d := reg.Equal(vals[i], gv, reg.EqOpts{}); d != "" {
					wit["diff"], wit["via"], wit["index"] = d, name, i
					wit["decoded"] = mon.Trunc(fmt.Sprintf("%+v", got), 1200)
					R.Violation("put-order-mismatch@VmStack/"+name, wit)
					break
				}
			}
		}
		// helper constructors
		g := reg.NewGen(rng)
		e, _ := reg.Lookup(mon.Pick(rng, []string{"tlb.MsgAddress", "tlb.StateInit", "tlb.CurrencyCollection", "tlb.TrStoragePhase"}))
		x := g.New(e.Type)
		for _, how := range []string{"TlbStructToVmCell", "TlbStructToVmCellSlice"} {
			var sv tlb.VmStackValue
			back := reflect.New(e.Type)
			var e1, e2 error
			p := mon.Guard(func() {
				if how == "TlbStructToVmCell" {
					sv, e1 = tlb.TlbStructToVmCell(x.Interface())
				} else {
					sv, e1 = tlb.TlbStructToVmCellSlice(x.Interface())
				}
				if e1 == nil {
					e2 = sv.Unmarshal(back.Interface())
				}
			})
			if e1 != nil && p == nil {
				continue // the value does not encode: legal
			}
			w := map[string]any{"case": k, "type": e.Name, "value": mon.Trunc(fmt.Sprintf("%+v", x.Interface()), 800)}
			R.Eval(fmt.Sprintf("%s/%s/%d", how, e.Name, k))
			if p != nil || e2 != nil {
				w["err"] = fmt.Sprint(e2, p)
				R.Violation("decode-failed@"+how, w)
				continue
			}
			if d := reg.Equal(x, back.Elem(), reg.EqOpts{}); d != "" {
				w["diff"] = d
				R.Violation("roundtrip-mismatch@"+how, w)
			}
		}
	}
}

func main() {
	tier := "quick"
	if len(os.Args) > 1 {
		tier = os.Args[1]
	}
	R = mon.Start("C03", tier)
	R.Rule = "for every exported TL-B type of packages tlb, wallet, abi (registry generated from the tongo sources at check time, plus hand-kept instantiations of the generic combinators) values are generated by reflection under the types' domain rules (every constructor of every union in turn, integer boundaries first, then random), encoded with tlb.Marshal, decoded with tlb.Unmarshal and tlb.NewDecoder() (from the built cell and from a BOC round trip) and compared semantically; the decoded value is encoded again and hashes compared, and once more after every cell / bit string reachable in it has been read in place (32 bits, one reference); the original value is encoded a second time (same hash); half of the cases place library / Merkle-proof cells where the schema has ^Cell (library cells only where it has ^X with X = Any) and take the longest list forms (4 messages of a v3/v4 payload, 254 of a highload one, 255 wallet-v5 actions); VM stacks built with Put decode (TL-B and TL wrapper) to the values in push order, TlbStructToVmCell(Slice) read back equal; an encode error is a legal outcome; non-trivial = a value that encoded and was decoded+compared; distinct = distinct (type, constructor path, case index)"
	R.Assume("domain rules of the generator (harness/reg/gen.go): VarUIntegerN holds at most N-1 bytes, UintN/IntN within N bits, Anycast depth 1..30 with prefix < 2^depth, AddrVar.AddrLen == len(Address), AddrExtern <= 511 bits, Magic fields hold their tag, non-chosen union arms and absent optionals are zero, enum strings take their declared constants")
	R.Assume("exotic cells in the generated values: library and Merkle-proof cells of level 0 in boc.Cell positions (Merkle only behind pointers: the decoder declares a library cell there not implemented), library cells only as Any behind a reference; pruned branches are not values of the round trip (the decoder skips them by design: they stand for absent data)")
	R.Assume("types whose encoder is declared not implemented (HashmapAug(E), BinTree, VmStkTuple, VmCont, ChunkedData) are never encoded here; they are exercised decode-side in C04 (real data) and C08")
	types := reg.Types()
	total, denied := reg.Count()
	R.Extra("registry_types", total)
	R.Extra("deny_list", reg.Deny)
	R.Extra("denied", denied)
	perArm := R.N(6, 2500)
	stats := make([]*typeStat, len(types))
	var wg sync.WaitGroup
	sem := make(chan struct{}, 16)
	for i, e := range types {
		stats[i] = &typeStat{arms: map[string]bool{}}
		wg.Add(1)
		sem <- struct{}{}
		go func(i int, e reg.Entry) {
			defer wg.Done()
			defer func() { <-sem }()
			n := 1
			if e.Type.Kind() == reflect.Struct {
				if a := reg.Arms(e.Type); len(a) > 0 {
					n = len(a)
				}
			}
			if n > 40 {
				n = 40
			}
			cases := n * perArm
			if cases < 12 {
				cases = 12
			}
			for k := 0; k < cases; k++ {
				roundTrip(e, k, stats[i])
			}
		}(i, e)
	}
	wg.Wait()
	// every bit length of the variable-length and external address kinds
	addrEntry, _ := reg.Lookup("tlb.MsgAddress")
	for i, a := range reg.AddrSweep(R.Rng("addr-sweep", 0)) {
		a := a
		v := reflect.ValueOf(&a).Elem()
		c := boc.NewCell()
		var err error
		if p := mon.Guard(func() { err = tlb.Marshal(c, a) }); p != nil || err != nil {
			R.Violation("error@Marshal/tlb.MsgAddress/length-sweep", map[string]any{"value": fmt.Sprintf("%+v", a), "err": fmt.Sprint(err, p)})
			continue
		}
		var back tlb.MsgAddress
		if p := mon.Guard(func() { err = tlb.Unmarshal(c, &back) }); p != nil || err != nil {
			R.Violation("decode-failed@tlb.MsgAddress/length-sweep", map[string]any{"value": fmt.Sprintf("%+v", a), "err": fmt.Sprint(err, p)})
			continue
		}
		R.Eval(fmt.Sprintf("addr-sweep/%d", i))
		if d := reg.Equal(v, reflect.ValueOf(&back).Elem(), reg.EqOpts{}); d != "" {
			R.Violation("roundtrip-mismatch@tlb.MsgAddress/length-sweep", map[string]any{"value": fmt.Sprintf("%+v", a), "diff": d})
		}
	}
	_ = addrEntry
	sectionVmStack()
	var never, partial []string
	encodedTypes := 0
	arms := 0
	exotic, peeked := 0, 0
	for i, e := range types {
		st := stats[i]
		arms += len(st.arms)
		exotic += st.exotic
		peeked += st.peeked
		if st.encoded == 0 {
			never = append(never, e.Name+": "+mon.Trunc(st.lastErr, 80))
		} else {
			encodedTypes++
			if st.encErr > 0 {
				partial = append(partial, fmt.Sprintf("%s: %d/%d", e.Name, st.encErr, st.cases))
			}
		}
	}
	sort.Strings(never)
	R.Extra("types_exercised", len(types))
	R.Extra("types_encoded_at_least_once", encodedTypes)
	R.Extra("constructors_hit", arms)
	R.Extra("never_encoded", never)
	R.Count("exotic_cells_placed", int64(exotic))
	R.Count("cells_and_bitstrings_read_in_place", int64(peeked))
	R.Extra("types_with_some_encode_errors", len(partial))
	R.Sample(map[string]any{"type": "tlb.MsgAddress", "example": "AddrVar{AddrLen:257, WorkchainId:-2147483648, Address:257 random bits} -> Marshal -> Unmarshal -> equal; re-Marshal same hash"})
	os.Exit(R.Finish())
}
