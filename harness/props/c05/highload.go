// C05, a dictionary as the library's own consumer sees it: the payload of a
// highload-v2 wallet message (wallet/messages.go, one of the anchors).
//
//	_ subwallet_id:uint32 query_id:uint64 messages:(HashmapE 16 ^[mode:uint8 msg:^Cell]) ...
//
// Any sender may have written that dictionary: the keys are arbitrary 16-bit
// numbers (numbered from 1, with gaps, a single 0xffff), the labels in any
// form. "Any valid TON dictionary decodes to the mapping it represents": every
// entry must come back through PayloadHighload, DecodeHighloadV2Message and
// ExtractRawMessages, in ascending key order (the list has no keys of its own,
// the order is all that is left of them), each with its mode and its message.
package main

import (
	"fmt"

	"github.com/tonkeeper/tongo/tlb"
	"github.com/tonkeeper/tongo/wallet"

	"verifharness/bridge"
	"verifharness/mon"
	rbits "verifharness/ref/bits"
	"verifharness/ref/cell"
	"verifharness/ref/dict"
)

func highloadPayloads() {
	total := R.N(300, 6000)
	for i := 0; i < total; i++ {
		r := R.Rng("highload", i)
		shape := dict.Shapes[i%len(dict.Shapes)]
		if p := mon.Guard(func() { highloadCase(r, i, shape) }); p != nil {
			R.HarnessError("highload case %d (%s) panicked outside a guarded tongo call: %s\n%s", i, shape, p.Value, mon.Trunc(p.Stack, 1200))
		}
	}
}

// extInMessage: message$_ with ext_in_msg_info$10 src:addr_none$00 dest:addr_std$10 anycast:nothing$0 workchain_id:int8
// address:bits256 import_fee:Grams(0) init:nothing$0 body:(Either X ^X), the body either in line or in a reference.
func extInMessage(r *mon.Rng, body *cell.Cell) *cell.Cell {
	b := []bool{true, false, false, false, true, false, false}
	b = append(b, rbits.IntBits(int64(r.Intn(2))-1, 8)...)
	b = append(b, r.Bits(256)...)
	b = append(b, false, false, false, false) // Grams 0
	b = append(b, false)                      // no StateInit
	if len(b)+1+len(body.Bits) <= 1023 && r.Bool() {
		b = append(b, false)
		return cell.New(append(b, body.Bits...), false, body.Refs...)
	}
	return cell.New(append(b, true), false, body)
}

func highloadCase(r *mon.Rng, idx int, shape string) {
	keys := dict.GenKeys(r, 16, shape, 60)
	model := &modelT{n: 16, m: map[string]dict.Value{}}
	for _, k := range keys {
		model.m[dict.KeyString(k)] = dict.Value{Bits: r.Bits(8), Refs: []*cell.Cell{randTree(r, 2)}}
	}
	es := model.sorted()
	c := &ctx{kname: "Uint16", kkind: "uint", vname: "^[mode msg]", shape: shape, idx: idx}
	variant := mon.Pick(r, []string{"canonical", "canonical", "short", "long", "same", "mixed"})
	b := &dict.Builder{N: 16}
	if variant != "canonical" {
		b.Choose = chooser(variant, r.Fork("hl", 0))
	}
	hv, err := b.HashmapE(es)
	if err != nil {
		R.HarnessError("reference writer failed (highload payload, %s): %v", variant, err)
		return
	}
	R.Count("highload_payloads", 1)
	if len(es) > 0 && rbits.ToUint(es[0].Key) != 0 {
		R.Count("highload_payloads_not_numbered_from_0", 1)
	}
	if len(es) > 0 && int(rbits.ToUint(es[len(es)-1].Key)) >= len(es) {
		R.Count("highload_payloads_with_gaps", 1)
	}
	fp := fmt.Sprintf("hl/%d/%x", len(es), wrapE(hv).Hash())
	compare := func(got []wallet.RawMessage) string {
		if len(got) != len(es) {
			return fmt.Sprintf("%d messages, want %d", len(got), len(es))
		}
		for i, e := range es {
			if got[i].Message == nil {
				return fmt.Sprintf("message %d (key %s) is nil", i, rbits.FiftHex(e.Key))
			}
			if uint64(got[i].Mode) != rbits.ToUint(e.Val.Bits) || bridge.FromTongo(got[i].Message).Hash() != e.Val.Refs[0].Hash() {
				return fmt.Sprintf("position %d does not hold the entry of key %s (the %d-th key in ascending order)", i, rbits.FiftHex(e.Key), i)
			}
		}
		return ""
	}
	// 1. the payload alone
	{
		tc, via, err := deliver(r, wrapE(hv), false)
		if err != nil {
			R.HarnessError("cannot deliver a highload payload (%s): %v", via, err)
			return
		}
		var p wallet.PayloadHighload
		err, ok := guarded(c, model, "Unmarshal(PayloadHighload)", func() error { return tlb.Unmarshal(tc, &p) })
		if !ok {
			return
		}
		R.Eval("xvi/payload/" + fp)
		w := c.wit(model, map[string]any{"dictionary": "highload payload, foreign:" + variant + "/" + via, "boc": bocHex(tc)})
		if err != nil {
			R.Violation(c.sig("error@Unmarshal(PayloadHighload, foreign:"+variant+")"), addTo(w, "err", err.Error()))
			return
		}
		if d := compare(p); d != "" {
			R.Violation(c.sig("decode-mismatch@PayloadHighload(foreign:"+variant+")"), addTo(w, "diff", d))
			return
		}
	}
	// 2. inside an external message: DecodeHighloadV2Message and ExtractRawMessages
	sub, qid := r.Uint64()&0xffffffff, r.Uint64()
	inner := append(append(rbits.UintBits(sub, 32), rbits.UintBits(qid, 64)...), hv.Bits...)
	body := cell.New(append(r.Bits(512), inner...), false, hv.Refs...)
	msg := extInMessage(r, body)
	for _, entry := range []string{"DecodeHighloadV2Message", "ExtractRawMessages"} {
		tc, via, err := deliver(r, msg, false)
		if err != nil {
			R.HarnessError("cannot deliver a highload message (%s): %v", via, err)
			return
		}
		var got []wallet.RawMessage
		var hl *wallet.HighloadV2Message
		err, ok := guarded(c, model, entry, func() (e error) {
			if entry == "ExtractRawMessages" {
				got, e = wallet.ExtractRawMessages(wallet.HighLoadV2R2, tc)
				return
			}
			if hl, e = wallet.DecodeHighloadV2Message(tc); e == nil {
				got = hl.RawMessages
			}
			return
		})
		if !ok {
			return
		}
		R.Eval("xvi/" + entry + "/" + fp)
		w := c.wit(model, map[string]any{"dictionary": "highload payload in an external message, foreign:" + variant + "/" + via, "boc": bocHex(tc)})
		if err != nil {
			R.Violation(c.sig("error@"+entry+"(foreign:"+variant+")"), addTo(w, "err", err.Error()))
			return
		}
		if d := compare(got); d != "" {
			R.Violation(c.sig("decode-mismatch@"+entry+"(foreign:"+variant+")"), addTo(w, "diff", d))
			return
		}
		if hl != nil && (uint64(hl.SubWalletId) != sub || hl.BoundedQueryID != qid) {
			R.Violation(c.sig("neighbour-fields-misread@HighloadV2Message"), addTo(w, "diff", "subwallet_id / query_id differ"))
			return
		}
	}
}
