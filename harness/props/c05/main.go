// C05 — dictionaries (Hashmap / HashmapE / HashmapAugE) preserve their
// key->value mapping. Oracle: a Go map from key bit string to abstract value
// plus harness/ref/dict (reader and writer written from the TL-B
// definitions, validated against the dictionaries of the real blocks).
// See DESIGN.md §5 C05.
package main

import (
	"fmt"
	"os"
	"reflect"
	"runtime"
	"sort"
	"sync"

	tboc "github.com/tonkeeper/tongo/boc"
	"github.com/tonkeeper/tongo/tlb"

	"verifharness/bridge"
	"verifharness/mon"
	rbits "verifharness/ref/bits"
	rboc "verifharness/ref/boc"
	"verifharness/ref/cell"
	"verifharness/ref/dict"
)

var R *mon.Run

// keyC repeats the method set tongo asks of dictionary keys (tlb.fixedSize is unexported).
type keyC interface {
	FixedSize() int
	Equal(other any) bool
	Compare(other any) (int, bool)
}

// ------------------------------------------------------------------ keys

// keyOf builds a tongo key value from its key bits without going through
// tongo's decoder: the Go representation of every key type is fixed by its
// declaration (unsigned/signed machine integer, byte array, or
// AddressWithWorkchain{int8, Bits256} standing for int32 ‖ bits256).
func keyOf[K keyC](b []bool) K {
	var k K
	v := reflect.ValueOf(&k).Elem()
	switch v.Kind() {
	case reflect.Uint8, reflect.Uint16, reflect.Uint32, reflect.Uint64:
		v.SetUint(rbits.ToUint(b))
	case reflect.Int8, reflect.Int16, reflect.Int32, reflect.Int64:
		v.SetInt(rbits.ToInt(b))
	case reflect.Array:
		reflect.Copy(v, reflect.ValueOf(rbits.ToBytes(b)))
	case reflect.Struct:
		v.Field(0).SetInt(rbits.ToInt(b[:32]))
		reflect.Copy(v.Field(1), reflect.ValueOf(rbits.ToBytes(b[32:])))
	default:
		panic("keyOf: unsupported key kind")
	}
	return k
}

func bitsOf[K keyC](k K) []bool {
	n := k.FixedSize()
	v := reflect.ValueOf(k)
	arr := func(a reflect.Value) []bool {
		bs := make([]byte, a.Len())
		for i := range bs {
			bs[i] = byte(a.Index(i).Uint())
		}
		return rbits.BytesBits(bs)
	}
	switch v.Kind() {
	case reflect.Uint8, reflect.Uint16, reflect.Uint32, reflect.Uint64:
		return rbits.UintBits(v.Uint(), n)
	case reflect.Int8, reflect.Int16, reflect.Int32, reflect.Int64:
		return rbits.IntBits(v.Int(), n)
	case reflect.Array:
		return arr(v)
	case reflect.Struct:
		return append(rbits.IntBits(v.Field(0).Int(), 32), arr(v.Field(1))...)
	}
	panic("bitsOf: unsupported key kind")
}

func keyKind[K keyC]() string {
	var k K
	switch reflect.TypeOf(k).Kind() {
	case reflect.Uint8, reflect.Uint16, reflect.Uint32, reflect.Uint64:
		return "uint"
	case reflect.Int8, reflect.Int16, reflect.Int32, reflect.Int64:
		return "int"
	case reflect.Array:
		return "bits"
	}
	return "addr"
}

// keyDomain describes which n-bit strings a key type can hold. Only
// AddressWithWorkchain is restricted: its workchain is an int8 in Go, so the
// leading 25 bits of the 32-bit workchain field are all equal. Key sets
// are generated over `inner` free bits and expanded.
type keyDomain struct {
	n, inner int
	expand   func([]bool) []bool
}

func domainOf[K keyC]() keyDomain {
	var k K
	n := k.FixedSize()
	if keyKind[K]() == "addr" {
		return keyDomain{n: n, inner: n - 24, expand: func(b []bool) []bool {
			out := make([]bool, 0, n)
			for i := 0; i < 24; i++ {
				out = append(out, b[0])
			}
			return append(out, b...)
		}}
	}
	return keyDomain{n: n, inner: n, expand: func(b []bool) []bool { return b }}
}

// ------------------------------------------------------------------ values

// valAd ties a tongo value type to its abstract (bits, refs) form.
type valAd[V any] struct {
	name string
	gen  func(r *mon.Rng, room int) dict.Value // a random abstract value occupying at most room bits
	mk   func(a dict.Value) V                  // the tongo value for it (fresh each time)
	abs  func(v V) dict.Value                  // abstract form of a value tongo returned
}

func randTree(r *mon.Rng, depth int) *cell.Cell {
	c := cell.New(r.Bits(r.Intn(48)), false)
	if depth > 0 {
		for i := 0; i < r.Intn(3); i++ {
			c.Refs = append(c.Refs, randTree(r, depth-1))
		}
	}
	return c
}

func mustBuilt(c *cell.Cell) *tboc.Cell {
	t, err := bridge.ToTongoBuilt(c)
	if err != nil {
		panic("harness: cannot build value cell: " + err.Error())
	}
	return t
}

var vU8 = &valAd[tlb.Uint8]{
	name: "Uint8",
	gen:  func(r *mon.Rng, room int) dict.Value { return dict.Value{Bits: r.Bits(8)} },
	mk:   func(a dict.Value) tlb.Uint8 { return tlb.Uint8(rbits.ToUint(a.Bits)) },
	abs:  func(v tlb.Uint8) dict.Value { return dict.Value{Bits: rbits.UintBits(uint64(v), 8)} },
}

var vU32 = &valAd[uint32]{
	name: "uint32",
	gen:  func(r *mon.Rng, room int) dict.Value { return dict.Value{Bits: r.Bits(32)} },
	mk:   func(a dict.Value) uint32 { return uint32(rbits.ToUint(a.Bits)) },
	abs:  func(v uint32) dict.Value { return dict.Value{Bits: rbits.UintBits(uint64(v), 32)} },
}

// nanograms$_ amount:(VarUInteger 16) = Grams;  var_uint$_ {n:#} len:(#< n) value:(uint (len * 8)) = VarUInteger n;
// canonical form: the shortest len. Amounts stay below 2^63 (larger ones are C03's subject).
func gramsBits(v uint64) []bool {
	l := 0
	for x := v; x > 0; x >>= 8 {
		l++
	}
	return append(rbits.UintBits(uint64(l), 4), rbits.UintBits(v, 8*l)...)
}

var vGrams = &valAd[tlb.Grams]{
	name: "Grams",
	gen: func(r *mon.Rng, room int) dict.Value {
		v := r.Uint64() >> uint(1+r.Intn(63))
		if r.Chance(1, 10) {
			v = 0
		}
		return dict.Value{Bits: gramsBits(v)}
	},
	mk:  func(a dict.Value) tlb.Grams { return tlb.Grams(rbits.ToUint(a.Bits[4:])) },
	abs: func(v tlb.Grams) dict.Value { return dict.Value{Bits: gramsBits(uint64(v))} },
}

var vRef = &valAd[tlb.Ref[tboc.Cell]]{
	name: "Ref[Cell]",
	gen:  func(r *mon.Rng, room int) dict.Value { return dict.Value{Refs: []*cell.Cell{randTree(r, 2)}} },
	mk:   func(a dict.Value) tlb.Ref[tboc.Cell] { return tlb.Ref[tboc.Cell]{Value: *mustBuilt(a.Refs[0])} },
	abs: func(v tlb.Ref[tboc.Cell]) dict.Value {
		c := v.Value
		return dict.Value{Refs: []*cell.Cell{bridge.FromTongo(&c)}}
	},
}

var vAny = &valAd[tlb.Any]{
	name: "Any",
	gen: func(r *mon.Rng, room int) dict.Value {
		nb := r.Intn(min(room, 300) + 1)
		if r.Chance(1, 8) {
			nb = room
		}
		v := dict.Value{Bits: r.Bits(nb)}
		for i := 0; i < r.Intn(5); i++ {
			v.Refs = append(v.Refs, randTree(r, 1))
		}
		return v
	},
	mk: func(a dict.Value) tlb.Any { return tlb.Any(*mustBuilt(cell.New(a.Bits, false, a.Refs...))) },
	abs: func(v tlb.Any) dict.Value {
		c := tboc.Cell(v)
		rc := bridge.FromTongo(&c)
		return dict.Value{Bits: rc.Bits, Refs: rc.Refs}
	},
}

// True / Unit: a value of no bits and no references (set-like dictionaries: `Hashmap 32 True`, LibDescr publishers,
// suspended_address_list). Every leaf below a fork looks the same then, so sibling sub-trees are equal cells.
var vUnit = &valAd[struct{}]{
	name: "Unit",
	gen:  func(r *mon.Rng, room int) dict.Value { return dict.Value{} },
	mk:   func(a dict.Value) struct{} { return struct{}{} },
	abs:  func(v struct{}) dict.Value { return dict.Value{} },
}

func sameValue(a, b dict.Value) bool {
	if !rbits.Equal(a.Bits, b.Bits) || len(a.Refs) != len(b.Refs) {
		return false
	}
	for i := range a.Refs {
		if a.Refs[i].Hash() != b.Refs[i].Hash() {
			return false
		}
	}
	return true
}

func showValue(v dict.Value) string {
	s := rbits.FiftHex(v.Bits)
	for _, r := range v.Refs {
		h := r.Hash()
		s += " ^" + mon.Hex(h[:6])
	}
	return mon.Trunc(s, 120)
}

// ------------------------------------------------------------------ the model

type modelT struct {
	n int
	m map[string]dict.Value
}

func (m *modelT) sorted() []dict.Entry {
	es := make([]dict.Entry, 0, len(m.m))
	for k, v := range m.m {
		es = append(es, dict.Entry{Key: dict.KeyBits(k), Val: v})
	}
	dict.SortEntries(es)
	return es
}

// diffEntries compares a traversal (in the order given) with the model in
// ascending key-bit order; "" when equal.
func diffEntries(got []dict.Entry, m *modelT) string {
	want := m.sorted()
	if len(got) != len(want) {
		return fmt.Sprintf("%d entries, want %d", len(got), len(want))
	}
	for i := range want {
		if !rbits.Equal(got[i].Key, want[i].Key) {
			if _, in := m.m[dict.KeyString(got[i].Key)]; in {
				return fmt.Sprintf("entry %d: key %s out of ascending key-bit order (want %s there)", i, rbits.FiftHex(got[i].Key), rbits.FiftHex(want[i].Key))
			}
			return fmt.Sprintf("entry %d: key %s (%d bits) is not in the dictionary; want %s", i, rbits.FiftHex(got[i].Key), len(got[i].Key), rbits.FiftHex(want[i].Key))
		}
		if !sameValue(got[i].Val, want[i].Val) {
			return fmt.Sprintf("key %s: value %s, want %s", rbits.FiftHex(want[i].Key), showValue(got[i].Val), showValue(want[i].Val))
		}
	}
	return ""
}

func (m *modelT) witness(extra map[string]any) map[string]any {
	w := map[string]any{"key_bits": m.n, "entries": len(m.m)}
	es := m.sorted()
	var ks []string
	for i, e := range es {
		if i >= 24 {
			ks = append(ks, fmt.Sprintf("...(+%d)", len(es)-i))
			break
		}
		ks = append(ks, rbits.FiftHex(e.Key)+" => "+showValue(e.Val))
	}
	w["model"] = ks
	for k, v := range extra {
		w[k] = v
	}
	return w
}

// ------------------------------------------------------------------ one case

type ctx struct {
	kname, kkind, vname string
	shape               string
	idx                 int
	o                   *dictOps
}

func (c *ctx) sig(class string) string { return class + "/key=" + c.kkind }

func (c *ctx) wit(m *modelT, extra map[string]any) map[string]any {
	w := m.witness(extra)
	w["key_type"], w["value_type"], w["shape"], w["case"] = "tlb."+c.kname, c.vname, c.shape, c.idx
	return w
}

// guarded runs a tongo call; a panic becomes a violation.
func guarded(c *ctx, m *modelT, op string, f func() error) (err error, ok bool) {
	p := mon.Guard(func() { err = f() })
	if p != nil {
		R.Violation(c.sig("panic@"+p.Site+"/"+op), c.wit(m, map[string]any{"panic": p.Value, "stack": mon.Trunc(p.Stack, 1500)}))
		return nil, false
	}
	return err, true
}

// itemsOf turns what tongo lists into abstract entries (in tongo's order).
func itemsOf[K keyC, V any](va *valAd[V], keys []K, vals []V) []dict.Entry {
	out := make([]dict.Entry, len(keys))
	for i := range keys {
		out[i].Key = bitsOf(keys[i])
		if i < len(vals) {
			out[i].Val = va.abs(vals[i])
		}
	}
	return out
}

// dictOps is everything a case needs from tongo for one (key type, value
// type) pair, expressed over abstract keys and values. Only these few
// closures are generic; the case logic below is not.
type dictOps struct {
	kname, kkind, vname string
	dom                 keyDomain
	gen                 func(r *mon.Rng, room int) dict.Value
	// Put the pairs in the given order into an empty HashmapE, Marshal it
	buildPut func(keys [][]bool, vals []dict.Value) (*tboc.Cell, error)
	// NewHashmapE(keys, vals), Marshal it
	buildNew func(keys [][]bool, vals []dict.Value) (*tboc.Cell, error)
	// Unmarshal a HashmapE: Items(), and Keys()/Values() zipped (nk, nv their lengths)
	decodeE func(tc *tboc.Cell) (h any, items, kv []dict.Entry, nk, nv int, err error)
	// Unmarshal a Hashmap / a HashmapAugE[K, V, uint32]: Keys()/Values() zipped
	decodeHm  func(tc *tboc.Cell) ([]dict.Entry, error)
	decodeAug func(tc *tboc.Cell) ([]dict.Entry, error)
	get       func(h any, key []bool) (dict.Value, bool)
	// tlb.ProveKeyInHashmap[V] on the root cell of a Hashmap: the lookup that works on the cell tree.
	// usable=false: no prover could be made for the tree (the Merkle machinery is C18's subject)
	prove func(root *tboc.Cell, key []bool) (v dict.Value, found, usable bool)
	// Items() of a dictionary obtained from decodeE, any time later
	items   func(h any) []dict.Entry
	put     func(h any, key []bool, v dict.Value)
	marshal func(h any) (*tboc.Cell, error)
	// reuse: build by Put, marshal, then look at the same dictionary again (entries, lookups, second marshal)
	reuse func(keys [][]bool, vals []dict.Value) (entries []dict.Entry, got []dict.Value, found []bool, h1, h2 string, err error)
	// decodeOver: decode cell a and then cell b into one and the same variable
	decodeOver func(a, b *tboc.Cell) ([]dict.Entry, error)
	// ---- plain (non-E) dictionaries written in line, see inline.go
	// Unmarshal a plain Hashmap at the cell's current bit/reference cursors: Keys()/Values() zipped, Items(), a lookup
	decodeHmAt func(tc *tboc.Cell) (kv, items []dict.Entry, get func([]bool) (dict.Value, bool), err error)
	// tlb.Marshal(NewHashmap(keys, vals)) into tc, in line, after whatever tc holds already
	marshalHm func(tc *tboc.Cell, keys [][]bool, vals []dict.Value) error
	// decode cell a and then cell b into one and the same plain Hashmap variable
	decodeHmOver func(a, b *tboc.Cell) ([]dict.Entry, error)
	// HashmapAug[K, V, uint32] at the cursors / a then b into one variable: Values()
	decodeAugAt   func(tc *tboc.Cell) ([]dict.Value, error)
	decodeAugOver func(a, b *tboc.Cell) ([]dict.Value, error)
}

func mkOps[K keyC, V any](kname string, va *valAd[V]) *dictOps {
	conv := func(keys [][]bool, vals []dict.Value) ([]K, []V) {
		ks, vs := make([]K, len(keys)), make([]V, len(keys))
		for i := range keys {
			ks[i], vs[i] = keyOf[K](keys[i]), va.mk(vals[i])
		}
		return ks, vs
	}
	return &dictOps{
		kname: kname, kkind: keyKind[K](), vname: va.name, dom: domainOf[K](), gen: va.gen,
		buildPut: func(keys [][]bool, vals []dict.Value) (*tboc.Cell, error) {
			var d tlb.HashmapE[K, V]
			ks, vs := conv(keys, vals)
			for i := range ks {
				d.Put(ks[i], vs[i])
			}
			out := tboc.NewCell()
			return out, tlb.Marshal(out, d)
		},
		buildNew: func(keys [][]bool, vals []dict.Value) (*tboc.Cell, error) {
			ks, vs := conv(keys, vals)
			out := tboc.NewCell()
			return out, tlb.Marshal(out, tlb.NewHashmapE(ks, vs))
		},
		decodeE: func(tc *tboc.Cell) (any, []dict.Entry, []dict.Entry, int, int, error) {
			d := new(tlb.HashmapE[K, V])
			if err := tlb.Unmarshal(tc, d); err != nil {
				return nil, nil, nil, 0, 0, err
			}
			items := d.Items()
			ks, vs := make([]K, len(items)), make([]V, len(items))
			for i, it := range items {
				ks[i], vs[i] = it.Key, it.Value
			}
			return d, itemsOf(va, ks, vs), itemsOf(va, d.Keys(), d.Values()), len(d.Keys()), len(d.Values()), nil
		},
		decodeHm: func(tc *tboc.Cell) ([]dict.Entry, error) {
			var h tlb.Hashmap[K, V]
			if err := tlb.Unmarshal(tc, &h); err != nil {
				return nil, err
			}
			return itemsOf(va, h.Keys(), h.Values()), nil
		},
		get: func(h any, key []bool) (dict.Value, bool) {
			v, ok := h.(*tlb.HashmapE[K, V]).Get(keyOf[K](key))
			if !ok {
				return dict.Value{}, false
			}
			return va.abs(v), true
		},
		prove: func(root *tboc.Cell, key []bool) (dict.Value, bool, bool) {
			pv, err := tboc.NewMerkleProver(root)
			if err != nil {
				return dict.Value{}, false, false
			}
			ks := tboc.NewBitString(len(key))
			for _, b := range key {
				if err := ks.WriteBit(b); err != nil {
					return dict.Value{}, false, false
				}
			}
			root.ResetCounters()
			v, _, err := tlb.ProveKeyInHashmap[V](pv, root, ks)
			if err != nil {
				return dict.Value{}, false, true
			}
			return va.abs(v), true, true
		},
		items: func(h any) []dict.Entry {
			items := h.(*tlb.HashmapE[K, V]).Items()
			ks, vs := make([]K, len(items)), make([]V, len(items))
			for i, it := range items {
				ks[i], vs[i] = it.Key, it.Value
			}
			return itemsOf(va, ks, vs)
		},
		put: func(h any, key []bool, v dict.Value) { h.(*tlb.HashmapE[K, V]).Put(keyOf[K](key), va.mk(v)) },
		marshal: func(h any) (*tboc.Cell, error) {
			out := tboc.NewCell()
			return out, tlb.Marshal(out, *h.(*tlb.HashmapE[K, V]))
		},
		reuse: func(keys [][]bool, vals []dict.Value) (entries []dict.Entry, got []dict.Value, found []bool, h1, h2 string, err error) {
			var d tlb.HashmapE[K, V]
			ks, vs := conv(keys, vals)
			for i := range ks {
				d.Put(ks[i], vs[i])
			}
			c1 := tboc.NewCell()
			if err = tlb.Marshal(c1, d); err != nil {
				return
			}
			items := d.Items()
			ik, iv := make([]K, len(items)), make([]V, len(items))
			for i, it := range items {
				ik[i], iv[i] = it.Key, it.Value
			}
			entries = itemsOf(va, ik, iv)
			for _, k := range ks {
				v, ok := d.Get(k)
				found = append(found, ok)
				if ok {
					got = append(got, va.abs(v))
				} else {
					got = append(got, dict.Value{})
				}
			}
			c2 := tboc.NewCell()
			if err = tlb.Marshal(c2, d); err != nil {
				return
			}
			if h1, err = hashOf(c1); err != nil {
				return
			}
			h2, err = hashOf(c2)
			return
		},
		decodeHmAt: func(tc *tboc.Cell) ([]dict.Entry, []dict.Entry, func([]bool) (dict.Value, bool), error) {
			h := new(tlb.Hashmap[K, V])
			if err := tlb.Unmarshal(tc, h); err != nil {
				return nil, nil, nil, err
			}
			items := h.Items()
			ks, vs := make([]K, len(items)), make([]V, len(items))
			for i, it := range items {
				ks[i], vs[i] = it.Key, it.Value
			}
			get := func(key []bool) (dict.Value, bool) {
				v, ok := h.Get(keyOf[K](key))
				if !ok {
					return dict.Value{}, false
				}
				return va.abs(v), true
			}
			return itemsOf(va, h.Keys(), h.Values()), itemsOf(va, ks, vs), get, nil
		},
		marshalHm: func(tc *tboc.Cell, keys [][]bool, vals []dict.Value) error {
			ks, vs := conv(keys, vals)
			return tlb.Marshal(tc, tlb.NewHashmap(ks, vs))
		},
		decodeHmOver: func(a, b *tboc.Cell) ([]dict.Entry, error) {
			var h tlb.Hashmap[K, V]
			if err := tlb.Unmarshal(a, &h); err != nil {
				return nil, err
			}
			if err := tlb.Unmarshal(b, &h); err != nil {
				return nil, err
			}
			return itemsOf(va, h.Keys(), h.Values()), nil
		},
		decodeOver: func(a, b *tboc.Cell) ([]dict.Entry, error) {
			d := new(tlb.HashmapE[K, V])
			if err := tlb.Unmarshal(a, d); err != nil {
				return nil, err
			}
			if err := tlb.Unmarshal(b, d); err != nil {
				return nil, err
			}
			items := d.Items()
			ks, vs := make([]K, len(items)), make([]V, len(items))
			for i, it := range items {
				ks[i], vs[i] = it.Key, it.Value
			}
			return itemsOf(va, ks, vs), nil
		},
	}
}

func hashOf(c *tboc.Cell) (string, error) {
	h, err := c.Hash()
	return string(h), err
}

// wrapE is the cell holding an in-line HashmapE value.
func wrapE(v dict.Value) *cell.Cell { return cell.New(v.Bits, false, v.Refs...) }

func sizeClass(n int) string {
	switch {
	case n == 0:
		return "0"
	case n == 1:
		return "1"
	case n <= 5:
		return "2-5"
	case n <= 30:
		return "6-30"
	case n <= 200:
		return "31-200"
	case n <= 1000:
		return "201-1000"
	}
	return ">1000"
}

func runCase(o *dictOps, idx int, shape string) {
	kname := o.kname
	r := R.Rng("case/"+kname+"/"+o.vname, idx)
	dom := o.dom
	c := &ctx{kname: kname, kkind: o.kkind, vname: o.vname, shape: shape, idx: idx, o: o}
	n := dom.n
	maxVal := 1023 - (2 + 10 + n) // room left for the value when one label holds the whole key in long form
	large := R.N(200, 5000)
	if r.Chance(3, 4) {
		large = R.N(200, 600)
	}
	inner := dict.GenKeys(r, dom.inner, shape, large)
	model := &modelT{n: n, m: map[string]dict.Value{}}
	var order []string
	// one case in six: all keys carry the same value (a set, a default-filled table); mirrored sub-trees are equal cells then
	equalVals := r.Chance(1, 6)
	shared := o.gen(r, maxVal)
	for _, ik := range inner {
		k := dict.KeyString(dom.expand(ik))
		if equalVals {
			model.m[k] = shared
		} else {
			model.m[k] = o.gen(r, maxVal)
		}
		order = append(order, k)
	}
	sz := len(order)
	if equalVals && sz > 1 {
		R.Count("dictionaries_with_equal_values", 1)
	}
	R.Seen("key_types", kname)
	R.Seen("value_types", o.vname)
	R.Seen("shapes", shape)
	R.Seen("type_pairs", kname+"/"+o.vname)
	R.Seen("size_classes", sizeClass(sz))
	R.Count("dictionaries", 1)
	R.Count("entries", int64(sz))

	// ---- (ii) build by Put in several orders, and by NewHashmapE from bit-sorted keys
	var perms [][]int
	switch {
	case sz <= 1:
		perms = [][]int{identity(sz)}
	case sz <= 4 || (sz == 5 && r.Chance(1, 4)):
		perms = allPerms(sz)
	default:
		np := 20
		if sz > 60 {
			np = 6
		}
		if sz > 600 {
			np = 2
		}
		perms = append(perms, identity(sz), reversed(sz))
		for len(perms) < np {
			perms = append(perms, r.Perm(sz))
		}
	}
	var first *tboc.Cell
	var firstHash string
	for pi, perm := range perms {
		keys, vals := make([][]bool, sz), make([]dict.Value, sz)
		for i, j := range perm {
			keys[i], vals[i] = dict.KeyBits(order[j]), model.m[order[j]]
		}
		var out *tboc.Cell
		err, ok := guarded(c, model, "Put+Marshal", func() (e error) { out, e = o.buildPut(keys, vals); return })
		if !ok {
			return
		}
		if err != nil {
			R.Violation(c.sig("error@Marshal(built by Put)"), c.wit(model, map[string]any{"err": err.Error(), "insertion_order": permKeys(order, perm)}))
			return
		}
		h, err := hashOf(out)
		if err != nil {
			R.Violation(c.sig("error@Hash(own encoding)"), c.wit(model, map[string]any{"err": err.Error()}))
			return
		}
		if pi == 0 {
			first, firstHash = out, h
			continue
		}
		R.Count("insertion_orders_compared", 1)
		if h != firstHash {
			R.Violation(c.sig("order-dependent-encoding@Put"), c.wit(model, map[string]any{
				"order_a": permKeys(order, perms[0]), "order_b": permKeys(order, perm), "hash_a": mon.Hex([]byte(firstHash)), "hash_b": mon.Hex([]byte(h))}))
			return
		}
	}
	fp := fmt.Sprintf("%s/%s/%x", kname, o.vname, firstHash)
	if sz == 0 {
		fp = ""
	}
	R.Eval(prefixFP("ii", fp))
	es := model.sorted()
	{
		keys, vals := make([][]bool, sz), make([]dict.Value, sz)
		for i, e := range es {
			keys[i], vals[i] = e.Key, e.Val
		}
		var out *tboc.Cell
		err, ok := guarded(c, model, "NewHashmapE+Marshal", func() (e error) { out, e = o.buildNew(keys, vals); return })
		if !ok {
			return
		}
		if err != nil {
			R.Violation(c.sig("error@Marshal(NewHashmapE, bit-sorted keys)"), c.wit(model, map[string]any{"err": err.Error()}))
			return
		}
		if h, _ := hashOf(out); h != firstHash {
			R.Violation(c.sig("order-dependent-encoding@NewHashmapE-vs-Put"), c.wit(model, map[string]any{"hash_put": mon.Hex([]byte(firstHash)), "hash_new": mon.Hex([]byte(h))}))
			return
		}
		// the same pairs handed to NewHashmapE in an arbitrary order
		if sz > 1 {
			perm := r.Perm(sz)
			for i, j := range perm {
				keys[i], vals[i] = es[j].Key, es[j].Val
			}
			err, ok := guarded(c, model, "NewHashmapE(unsorted)+Marshal", func() (e error) { out, e = o.buildNew(keys, vals); return })
			if !ok {
				return
			}
			R.Count("new_hashmape_unsorted", 1)
			if err != nil {
				R.Violation(c.sig("error@Marshal(NewHashmapE, keys in arbitrary order)"), c.wit(model, map[string]any{"err": err.Error(), "order": showKeys(keys)}))
				return
			}
			if h, _ := hashOf(out); h != firstHash {
				R.Violation(c.sig("order-dependent-encoding@NewHashmapE(unsorted keys)"), c.wit(model, map[string]any{"order": showKeys(keys), "hash_put": mon.Hex([]byte(firstHash)), "hash_new": mon.Hex([]byte(h))}))
				return
			}
		}
	}

	// ---- (iii) the reference reader on tongo's output
	ownRef := bridge.FromTongo(first)
	rd := &dict.Reader{N: n}
	parsed, _, _, perr := rd.ParseE(ownRef.Bits, ownRef.Refs)
	R.Eval(prefixFP("iii", fp))
	if perr == nil && (len(ownRef.Bits) != 1 || len(ownRef.Refs) > 1) {
		perr = fmt.Errorf("HashmapE occupies %d bits and %d references", len(ownRef.Bits), len(ownRef.Refs))
	}
	if perr != nil {
		R.Violation(c.sig("invalid-hashmap@own-encoding"), c.wit(model, map[string]any{"reference_reader": perr.Error(), "boc": bocHex(first)}))
		return
	}
	if d := diffEntries(parsed.Entries, model); d != "" {
		R.Violation(c.sig("wrong-mapping@own-encoding(read by reference)"), c.wit(model, map[string]any{"diff": d, "boc": bocHex(first)}))
		return
	}
	R.Count("own_labels_short", int64(parsed.Forms[dict.Short]))
	R.Count("own_labels_long", int64(parsed.Forms[dict.Long]))
	R.Count("own_labels_same", int64(parsed.Forms[dict.Same]))

	// ---- (i) tongo decodes its own encoding
	first.ResetCounters()
	dec, ok := decodeAndCompare(c, model, first, "own-encoding", fp)
	if !ok {
		return
	}
	if !proveLookups(c, model, first, "own-encoding", r.Fork("prove", 0), fp) {
		return
	}
	// the same cell tree after a trip through the wire format (equal cells exist once in a parsed bag)
	if sz > 1 && (equalVals || r.Chance(1, 4)) {
		var cs []*tboc.Cell
		if p := mon.Guard(func() {
			if b, err := first.ToBoc(); err == nil {
				cs, _ = tboc.DeserializeBoc(b)
			}
		}); p != nil || len(cs) != 1 {
			R.Count("own_encoding_via_boc_unavailable", 1) // the BOC codec is C01's subject
		} else {
			R.Count("own_encoding_via_boc", 1)
			if _, ok := decodeAndCompare(c, model, cs[0], "own-encoding-via-boc", fp); !ok {
				return
			}
			if !countLeaves(c, model, cs[0], "own-encoding-via-boc", fp) {
				return
			}
		}
		first.ResetCounters()
	}
	// plain Hashmap n X from the root cell
	if sz > 0 && len(first.Refs()) == 1 {
		root := first.Refs()[0]
		root.ResetCounters()
		var kv []dict.Entry
		err, ok := guarded(c, model, "Unmarshal(Hashmap)", func() (e error) { kv, e = o.decodeHm(root); return })
		if !ok {
			return
		}
		R.Eval(prefixFP("i-hm", fp))
		if err != nil {
			R.Violation(c.sig("error@Unmarshal(Hashmap, own-encoding)"), c.wit(model, map[string]any{"err": err.Error()}))
			return
		}
		if d := diffEntries(kv, model); d != "" {
			R.Violation(c.sig("decode-mismatch@Hashmap(own-encoding)"), c.wit(model, map[string]any{"diff": d}))
			return
		}
	}

	// ---- (vii) the dictionary is still itself after it has been marshalled: entries (as a mapping),
	// lookups and a second marshal of the same object
	if sz > 0 {
		perm := r.Perm(sz)
		keys, vals := make([][]bool, sz), make([]dict.Value, sz)
		for i, j := range perm {
			keys[i], vals[i] = dict.KeyBits(order[j]), model.m[order[j]]
		}
		var entries []dict.Entry
		var got []dict.Value
		var found []bool
		var h1, h2 string
		err, ok := guarded(c, model, "Put+Marshal+reuse", func() (e error) { entries, got, found, h1, h2, e = o.reuse(keys, vals); return })
		if !ok {
			return
		}
		R.Eval(prefixFP("vii", fp))
		if err != nil {
			R.Violation(c.sig("error@Marshal(second time)"), c.wit(model, map[string]any{"err": err.Error(), "insertion_order": permKeys(order, perm)}))
			return
		}
		dict.SortEntries(entries)
		if d := diffEntries(entries, model); d != "" {
			R.Violation(c.sig("dictionary-changed-by-Marshal@Items"), c.wit(model, map[string]any{"diff": d, "insertion_order": permKeys(order, perm)}))
			return
		}
		for i := range keys {
			if !found[i] || !sameValue(got[i], vals[i]) {
				R.Violation(c.sig("dictionary-changed-by-Marshal@Get"), c.wit(model, map[string]any{"key": rbits.FiftHex(keys[i]), "found": found[i], "got": showValue(got[i]), "want": showValue(vals[i]), "insertion_order": permKeys(order, perm)}))
				return
			}
		}
		if h1 != firstHash || h2 != firstHash {
			R.Violation(c.sig("second-Marshal-differs"), c.wit(model, map[string]any{"first": mon.Hex([]byte(h1)), "second": mon.Hex([]byte(h2)), "insertion_order": permKeys(order, perm)}))
			return
		}
		// ---- (viii) decoding into a variable that already holds another dictionary replaces it
		half := sz / 2
		ak, av := make([][]bool, 0, half+1), make([]dict.Value, 0, half+1)
		for i := 0; i <= half && i < sz; i++ {
			ak, av = append(ak, keys[i]), append(av, o.gen(r, maxVal))
		}
		var other *tboc.Cell
		if err, ok := guarded(c, model, "Put+Marshal(other)", func() (e error) { other, e = o.buildPut(ak, av); return }); ok && err == nil {
			first.ResetCounters()
			var over []dict.Entry
			err, ok := guarded(c, model, "Unmarshal(over another dictionary)", func() (e error) { over, e = o.decodeOver(other, first); return })
			if !ok {
				return
			}
			R.Eval(prefixFP("viii", fp))
			if err != nil {
				R.Violation(c.sig("error@Unmarshal(into used variable)"), c.wit(model, map[string]any{"err": err.Error()}))
				return
			}
			if d := diffEntries(over, model); d != "" {
				R.Violation(c.sig("decode-mismatch@into-used-variable"), c.wit(model, map[string]any{"diff": d, "note": "the variable held another dictionary before"}))
				return
			}
			first.ResetCounters()
			// the same with a plain Hashmap variable
			if len(other.Refs()) == 1 && len(first.Refs()) == 1 && o.decodeHmOver != nil {
				ra, rb := other.Refs()[0], first.Refs()[0]
				ra.ResetCounters()
				rb.ResetCounters()
				err, ok := guarded(c, model, "Unmarshal(Hashmap over another dictionary)", func() (e error) { over, e = o.decodeHmOver(ra, rb); return })
				if !ok {
					return
				}
				R.Eval(prefixFP("viii-hm", fp))
				if err != nil {
					R.Violation(c.sig("error@Unmarshal(Hashmap into used variable)"), c.wit(model, map[string]any{"err": err.Error()}))
					return
				}
				if d := diffEntries(over, model); d != "" {
					R.Violation(c.sig("decode-mismatch@into-used-variable(Hashmap)"), c.wit(model, map[string]any{"diff": d, "note": "the plain Hashmap variable held another dictionary before"}))
					return
				}
				first.ResetCounters()
			}
		}
	}

	// ---- (iv) foreign dictionaries: every label form
	variants := []string{"canonical", "short", "long", "same", "mixed", "mixed"}
	if sz == 0 {
		variants = variants[:1]
	}
	var foreignDec any
	proveAt := r.Intn(len(variants)) // one foreign variant per case also answers cell-level lookups
	for vi, variant := range variants {
		fr := r.Fork("foreign", vi)
		b := &dict.Builder{N: n}
		if variant != "canonical" {
			b.Choose = chooser(variant, fr)
		}
		hv, err := b.HashmapE(es)
		if err != nil {
			R.HarnessError("reference writer failed (%s, %s, %d keys): %v", kname, variant, sz, err)
			return
		}
		holder := wrapE(hv)
		var forms [4]int
		if sz > 0 {
			fp2, err := (&dict.Reader{N: n}).Parse(hv.Refs[0])
			if err != nil || diffEntries(fp2.Entries, model) != "" {
				R.HarnessError("reference reader does not read back the reference writer (%s, %s): %v", kname, variant, err)
				return
			}
			forms = fp2.Forms
		}
		R.Count("foreign_labels_short", int64(forms[dict.Short]))
		R.Count("foreign_labels_long", int64(forms[dict.Long]))
		R.Count("foreign_labels_same", int64(forms[dict.Same]))
		var tc *tboc.Cell
		via := "built"
		if fr.Bool() && !(equalVals && vi%2 == 0) {
			tc, err = bridge.ToTongoBuilt(holder)
		} else {
			via = "boc"
			var cs []*tboc.Cell
			cs, _, err = bridge.ToTongoParsed([]*cell.Cell{holder}, rboc.Options{})
			if err == nil {
				tc = cs[0]
			}
		}
		if err != nil {
			R.HarnessError("cannot deliver a reference dictionary to tongo (%s): %v", via, err)
			return
		}
		R.Seen("foreign_variants", variant+"/"+via)
		fd, ok := decodeAndCompare(c, model, tc, "foreign:"+variant, fmt.Sprintf("%s/%d.%d.%d", fp, forms[1], forms[2], forms[3]))
		if !ok {
			return
		}
		if variant == "mixed" {
			foreignDec = fd
		}
		if !countLeaves(c, model, tc, "foreign:"+variant, fp) {
			return
		}
		if vi == proveAt && !proveLookups(c, model, tc, "foreign:"+variant, r.Fork("prove", 1+vi), fp) {
			return
		}
	}

	// ---- (v) Get and Put on decoded dictionaries, then re-encode
	target := dec
	from := "own-encoding"
	if foreignDec != nil && r.Bool() {
		target, from = foreignDec, "foreign:mixed"
	}
	if !lookupsAndUpdates(c, model, target, from, r, fp, maxVal) {
		return
	}

	// ---- (vi) decode-only: HashmapAugE with extras written by the reference
	if !augmented(c, model, r, fp) {
		return
	}
	// ---- (ix)-(xi) plain Hashmap / HashmapAug in line, between the fields of an enclosing cell
	if !inlineDicts(c, model, r.Fork("inline-dicts", 0), fp) {
		return
	}
	if idx < 3*len(registry) && sz > 1 && sz < 6 && idx%97 == 0 {
		R.Sample(map[string]any{"key_type": "tlb." + kname, "value_type": o.vname, "shape": shape, "model": model.witness(nil)["model"],
			"root_hash": mon.Hex([]byte(firstHash)), "insertion_orders": len(perms), "tongo_labels": fmt.Sprintf("short=%d long=%d same=%d", parsed.Forms[1], parsed.Forms[2], parsed.Forms[3])})
	}
}

func prefixFP(p, fp string) string {
	if fp == "" {
		return ""
	}
	return p + "/" + fp
}

func bocHex(c *tboc.Cell) string {
	var b []byte
	if p := mon.Guard(func() { b, _ = c.ToBoc() }); p != nil {
		return "(ToBoc panicked)"
	}
	return mon.HexTrunc(b, 3000)
}

func identity(n int) []int {
	p := make([]int, n)
	for i := range p {
		p[i] = i
	}
	return p
}

func reversed(n int) []int {
	p := make([]int, n)
	for i := range p {
		p[i] = n - 1 - i
	}
	return p
}

func allPerms(n int) [][]int {
	var out [][]int
	var rec func(p []int, k int)
	rec = func(p []int, k int) {
		if k == n {
			out = append(out, append([]int(nil), p...))
			return
		}
		for i := k; i < n; i++ {
			p[k], p[i] = p[i], p[k]
			rec(p, k+1)
			p[k], p[i] = p[i], p[k]
		}
	}
	rec(identity(n), 0)
	return out
}

func showKeys(keys [][]bool) []string {
	var out []string
	for i, k := range keys {
		if i >= 16 {
			out = append(out, "...")
			break
		}
		out = append(out, rbits.FiftHex(k))
	}
	return out
}

func permKeys(order []string, perm []int) []string {
	var out []string
	for i, j := range perm {
		if i >= 16 {
			out = append(out, "...")
			break
		}
		out = append(out, rbits.FiftHex(dict.KeyBits(order[j])))
	}
	return out
}

// chooser forces one label constructor wherever it can represent the label
// and fits; elsewhere (and for "mixed") it draws among the feasible ones.
func chooser(variant string, r *mon.Rng) dict.Chooser {
	want := map[string]dict.Form{"short": dict.Short, "long": dict.Long, "same": dict.Same}
	return func(label []bool, m, depth, room int) dict.Form {
		fs := dict.Feasible(label, m, room)
		if len(fs) == 0 {
			return dict.Canonical
		}
		if w, ok := want[variant]; ok {
			for _, f := range fs {
				if f == w {
					return f
				}
			}
		}
		return mon.Pick(r, fs)
	}
}

// decodeAndCompare: tongo's Unmarshal of a HashmapE must list exactly the model, ascending.
func decodeAndCompare(c *ctx, model *modelT, tc *tboc.Cell, what, fp string) (any, bool) {
	var h any
	var items, kv []dict.Entry
	var nk, nv int
	err, ok := guarded(c, model, "Unmarshal("+classOf(what)+")", func() (e error) { h, items, kv, nk, nv, e = c.o.decodeE(tc); return })
	if !ok {
		return nil, false
	}
	R.Eval(prefixFP("i/"+what, fp))
	if err != nil {
		R.Violation(c.sig("error@Unmarshal("+what+")"), c.wit(model, map[string]any{"err": err.Error(), "boc": bocHex(tc)}))
		return nil, false
	}
	if d := diffEntries(items, model); d != "" {
		R.Violation(c.sig("decode-mismatch@"+what), c.wit(model, map[string]any{"diff": d, "boc": bocHex(tc)}))
		return nil, false
	}
	// Keys()/Values() tell the same story as Items()
	if d := diffEntries(kv, model); d != "" || nk != nv {
		R.Violation(c.sig("decode-mismatch@Keys/Values("+what+")"), c.wit(model, map[string]any{"diff": d}))
		return nil, false
	}
	return h, true
}

func classOf(what string) string {
	if len(what) > 7 && what[:8] == "foreign:" {
		return "foreign"
	}
	return what
}

// absentKeys draws keys that are not in the model: near misses (one bit
// off a present key, a present key's prefix with another tail) and random ones.
func absentKeys(r *mon.Rng, model *modelT, dom keyDomain, present [][]bool, want int) [][]bool {
	var out [][]bool
	seen := map[string]bool{}
	for try := 0; try < want*4 && len(out) < want; try++ {
		var ik []bool
		if len(present) > 0 && try%2 == 0 {
			p := present[r.Intn(len(present))]
			ik = append([]bool(nil), p[len(p)-dom.inner:]...)
			if r.Bool() {
				j := r.Intn(dom.inner)
				ik[j] = !ik[j]
			} else {
				t := r.Intn(dom.inner)
				copy(ik[t:], r.Bits(dom.inner-t))
			}
		} else {
			ik = r.Bits(dom.inner)
		}
		k := dom.expand(ik)
		ks := dict.KeyString(k)
		if _, in := model.m[ks]; in || seen[ks] {
			continue
		}
		seen[ks] = true
		out = append(out, k)
	}
	return out
}

func lookupsAndUpdates(c *ctx, model *modelT, d any, from string, r *mon.Rng, fp string, maxVal int) bool {
	o, dom := c.o, c.o.dom
	es := model.sorted()
	present := make([][]bool, len(es))
	for i := range es {
		present[i] = es[i].Key
	}
	// Get: all present keys (a sample of 300 for big sets), 50 absent ones
	probe := identity(len(es))
	if len(probe) > 300 {
		probe = r.Perm(len(es))[:300]
	}
	for _, i := range probe {
		var v dict.Value
		var found bool
		if _, ok := guarded(c, model, "Get", func() error { v, found = o.get(d, es[i].Key); return nil }); !ok {
			return false
		}
		if !found || !sameValue(v, es[i].Val) {
			R.Violation(c.sig("get-mismatch@present-key("+classOf(from)+")"), c.wit(model, map[string]any{"key": rbits.FiftHex(es[i].Key), "found": found, "decoded_from": from}))
			return false
		}
	}
	abs := absentKeys(r, model, dom, present, 50)
	for _, k := range abs {
		var found bool
		if _, ok := guarded(c, model, "Get", func() error { _, found = o.get(d, k); return nil }); !ok {
			return false
		}
		if found {
			R.Violation(c.sig("get-mismatch@absent-key("+classOf(from)+")"), c.wit(model, map[string]any{"key": rbits.FiftHex(k), "decoded_from": from}))
			return false
		}
	}
	R.EvalN(int64(len(probe)+len(abs)), prefixFP("v-get", fp))
	// reading it (Items, Keys, Values, Get of present and absent keys) has not changed it
	var again []dict.Entry
	if _, ok := guarded(c, model, "Items(after lookups)", func() error { again = o.items(d); return nil }); !ok {
		return false
	}
	if df := diffEntries(again, model); df != "" {
		R.Violation(c.sig("dictionary-changed-by-lookups@Items("+classOf(from)+")"), c.wit(model, map[string]any{"diff": df, "decoded_from": from}))
		return false
	}
	R.Count("get_present", int64(len(probe)))
	R.Count("get_absent", int64(len(abs)))

	// Put: overwrite some present keys, insert some absent ones; the model follows
	m2 := &modelT{n: model.n, m: map[string]dict.Value{}}
	for k, v := range model.m {
		m2.m[k] = v
	}
	var ops []string
	nUpd, nIns := 0, 0
	steps := r.Range(1, 6)
	for s := 0; s < steps; s++ {
		var k []bool
		if len(present) > 0 && r.Bool() {
			k = present[r.Intn(len(present))]
			nUpd++
			ops = append(ops, "update "+rbits.FiftHex(k))
		} else if len(abs) > 0 {
			k = abs[r.Intn(len(abs))]
			nIns++
			ops = append(ops, "insert "+rbits.FiftHex(k))
		} else {
			continue
		}
		nv := o.gen(r, maxVal)
		m2.m[dict.KeyString(k)] = nv
		if _, ok := guarded(c, m2, "Put(decoded)", func() error { o.put(d, k, nv); return nil }); !ok {
			return false
		}
	}
	R.Count("put_updates", int64(nUpd))
	R.Count("put_inserts", int64(nIns))
	// lookups agree with the updated mapping
	for _, e := range m2.sorted() {
		if old, was := model.m[dict.KeyString(e.Key)]; was && sameValue(old, e.Val) && len(m2.m) > 300 {
			continue // big dictionaries: only the touched keys
		}
		v, found := o.get(d, e.Key)
		if !found || !sameValue(v, e.Val) {
			R.Violation(c.sig("get-mismatch@after-Put("+classOf(from)+")"), c.wit(m2, map[string]any{"key": rbits.FiftHex(e.Key), "found": found, "ops": ops, "decoded_from": from}))
			return false
		}
	}
	// re-encode: the reference reads the updated mapping; tongo reads it too
	var out *tboc.Cell
	err, ok := guarded(c, m2, "Marshal(after Put)", func() (e error) { out, e = o.marshal(d); return })
	if !ok {
		return false
	}
	w := map[string]any{"ops": ops, "decoded_from": from, "before": model.witness(nil)["model"]}
	R.Eval(prefixFP("v-put", fp+fmt.Sprint(ops)))
	if err != nil {
		R.Violation(c.sig("error@Marshal(decoded+Put)"), c.wit(m2, addTo(w, "err", err.Error())))
		return false
	}
	rc := bridge.FromTongo(out)
	p, _, _, perr := (&dict.Reader{N: model.n}).ParseE(rc.Bits, rc.Refs)
	if perr != nil {
		R.Violation(c.sig("invalid-hashmap@decoded+Put"), c.wit(m2, addTo(addTo(w, "reference_reader", perr.Error()), "boc", bocHex(out))))
		return false
	}
	if df := diffEntries(p.Entries, m2); df != "" {
		R.Violation(c.sig("wrong-mapping@decoded+Put"), c.wit(m2, addTo(addTo(w, "diff", df), "boc", bocHex(out))))
		return false
	}
	// the decoded dictionary is still itself after it has been marshalled
	if _, ok := guarded(c, m2, "Items(after Marshal)", func() error { again = o.items(d); return nil }); !ok {
		return false
	}
	dict.SortEntries(again) // as a mapping: after Put the listing order of the object is not part of the statement
	if df := diffEntries(again, m2); df != "" {
		R.Violation(c.sig("dictionary-changed-by-Marshal@Items(decoded+Put)"), c.wit(m2, addTo(w, "diff", df)))
		return false
	}
	_, ok = decodeAndCompare(c, m2, out, "decoded+Put", fp+fmt.Sprint(ops))
	return ok
}

func addTo(m map[string]any, k string, v any) map[string]any { m[k] = v; return m }

// augmented: HashmapAugE n X uint32 written by the reference (extra = sum of
// the leaves' extras mod 2^32); tongo must list the same keys and values.
func augmented(c *ctx, model *modelT, r *mon.Rng, fp string) bool {
	if c.o.decodeAug == nil {
		return true
	}
	es := model.sorted()
	maxRefs := 0
	for i := range es {
		es[i].Extra = dict.Value{Bits: r.Bits(32)}
		if len(es[i].Val.Bits) > 1023-(2+10+model.n)-32 {
			R.Count("augmented_skipped_no_room", 1)
			return true // no room for the extra next to this value
		}
		if len(es[i].Val.Refs) > maxRefs {
			maxRefs = len(es[i].Val.Refs)
		}
	}
	variant := mon.Pick(r, []string{"canonical", "mixed", "mixed", "same"})
	b := &dict.Builder{N: model.n, Aug: true, Fork: func(l, rr dict.Value) dict.Value {
		return dict.Value{Bits: rbits.UintBits((rbits.ToUint(l.Bits)+rbits.ToUint(rr.Bits))&0xffffffff, 32)}
	}}
	if variant != "canonical" {
		b.Choose = chooser(variant, r.Fork("aug", 0))
	}
	hv, err := b.HashmapAugE(es, dict.Value{Bits: rbits.UintBits(0, 32)})
	if err != nil {
		R.HarnessError("reference writer failed (augmented, %s): %v", c.kname, err)
		return false
	}
	tc, err := bridge.ToTongoBuilt(wrapE(hv))
	if err != nil {
		R.HarnessError("cannot deliver an augmented dictionary: %v", err)
		return false
	}
	var kv []dict.Entry
	err, ok := guarded(c, model, "Unmarshal(HashmapAugE)", func() (e error) { kv, e = c.o.decodeAug(tc); return })
	if !ok {
		return false
	}
	R.Eval(prefixFP("vi", fp))
	R.Count("augmented_dictionaries", 1)
	if err != nil {
		R.Violation(c.sig("error@Unmarshal(HashmapAugE, foreign:"+variant+")"), c.wit(model, map[string]any{"err": err.Error(), "boc": bocHex(tc)}))
		return false
	}
	if df := diffEntries(kv, model); df != "" {
		R.Violation(c.sig("decode-mismatch@HashmapAugE(foreign:"+variant+")"), c.wit(model, map[string]any{"diff": df, "boc": bocHex(tc)}))
		return false
	}
	if tc.BitsAvailableForRead() != 0 || tc.RefsAvailableForRead() != 0 {
		R.Violation(c.sig("decode-mismatch@HashmapAugE/root-extra-not-consumed"), c.wit(model, map[string]any{"bits_left": tc.BitsAvailableForRead()}))
		return false
	}
	return countLeaves(c, model, tc, "HashmapAugE:"+variant, fp)
}

// ------------------------------------------------------------------ registry and driver

type pair struct {
	kname, vname string
	ops          *dictOps
}

var registry []pair

// regA additionally instantiates the augmented dictionary for the pair (kept
// to a subset of pairs: each instantiation of tongo's generic types costs build time).
func regA[K keyC, V any](kname string, va *valAd[V]) {
	reg[K](kname, va)
	registry[len(registry)-1].ops.decodeAug = func(tc *tboc.Cell) ([]dict.Entry, error) {
		var h tlb.HashmapAugE[K, V, uint32]
		if err := tlb.Unmarshal(tc, &h); err != nil {
			return nil, err
		}
		return itemsOf(va, h.Keys(), h.Values()), nil
	}
	absAll := func(vs []V) []dict.Value {
		out := make([]dict.Value, len(vs))
		for i := range vs {
			out[i] = va.abs(vs[i])
		}
		return out
	}
	registry[len(registry)-1].ops.decodeAugAt = func(tc *tboc.Cell) ([]dict.Value, error) {
		var h tlb.HashmapAug[K, V, uint32]
		if err := tlb.Unmarshal(tc, &h); err != nil {
			return nil, err
		}
		return absAll(h.Values()), nil
	}
	registry[len(registry)-1].ops.decodeAugOver = func(a, b *tboc.Cell) ([]dict.Value, error) {
		var h tlb.HashmapAug[K, V, uint32]
		if err := tlb.Unmarshal(a, &h); err != nil {
			return nil, err
		}
		if err := tlb.Unmarshal(b, &h); err != nil {
			return nil, err
		}
		return absAll(h.Values()), nil
	}
}

func reg[K keyC, V any](kname string, va *valAd[V]) {
	var k K
	if got := reflect.TypeOf(k).Name(); got != kname {
		panic("registry: " + got + " registered as " + kname)
	}
	registry = append(registry, pair{kname, va.name, mkOps[K](kname, va)})
}

func main() {
	tier := "quick"
	if len(os.Args) > 1 {
		tier = os.Args[1]
	}
	R = mon.Start("C05", tier)
	R.Rule = "one case = one (key type, value type, key-set shape) dictionary: the Go-map model is built first; tongo builds it by Put in all/20 insertion orders and by NewHashmapE (root hashes must coincide), the reference reader (ref/dict) reads tongo's cell tree and must return the model, tongo decodes its own output and 6 reference-written variants (canonical, forced short/long/same labels, two random mixes; delivered in memory or through a BOC) and must list the model in ascending key-bit order; Get for all present (<=300) and 50 absent keys; Put updates/inserts on a decoded dictionary, re-encoded and read back by the reference; HashmapAugE written by the reference decoded by tongo. One case in six gives all keys the same value (plus value type Unit = no bits at all), decoded also after a trip through a BOC (equal sibling sub-trees are one cell there). NewHashmapE also from keys in arbitrary order. Plain Hashmap / HashmapAug IN LINE: the reference-written root (all label forms) spliced between random bits and 0..2 references of neighbouring fields, tongo reads the leading fields, the dictionary at the cursor, then the trailing fields; tongo's Marshal(NewHashmap) in line read by the reference; tlb.LibDescr alone and inside HashmapE 256 LibDescr; decoding into a used plain Hashmap / HashmapAug variable; deriving operations leave the decoded dictionary intact: tlb.ConfigParams decoded from a reference-written cell, then a random script of CloneKeepingSubsetOfKeys (random / non-prefix / suffix / empty / all subsets, absent and repeated numbers), Put on a clone, Put on the original, Marshal of the original, with the original and every clone compared with their own models (Items, Keys/Values, Get) after every step; Items() again after the lookups and after Marshal of a decoded HashmapE; reference-written highload-v2 payload dictionaries (HashmapE 16 ^[mode msg], arbitrary 16-bit key sets: not numbered from 0, gaps, 0xffff; all label forms) decoded through wallet.PayloadHighload, DecodeHighloadV2Message and ExtractRawMessages: every entry back, in ascending key order; tlb.ProveKeyInHashmap as one more lookup on the cell tree of the own encoding and of one foreign variant per case (dictionaries up to 300 entries: 3 present keys must be found with their values, up to 8 absent keys - a present key with one bit flipped at the end / inside the leaf label / anywhere, random - must not be found); BlockExtra.InMsgDescrLength/OutMsgDescrLength (second label parser) = number of entries for 256-bit keys. evaluations = comparisons made; non-trivial = non-empty dictionary; distinct = (sub-check, key type, value type, root hash of the encoding[, label-form mix | update script])"
	R.Assume("reference dictionary reader/writer harness/ref/dict is correct: pinned at start-up by reading every dictionary of the repository's real blocks/config proofs (keys repeat inside their values) and by re-writing them to the same root hash")
	R.Assume("AddressWithWorkchain keys are drawn with workchains that fit the type's int8 field (sign-extended to the 32-bit key field)")
	R.Assume("Grams values stay below 2^63 (larger amounts are property C03's subject)")
	st, err := dict.SelfCheck(mon.RepoRoot(), true)
	R.Extra("model_selfcheck", st)
	if err != nil {
		R.HarnessError("reference dictionary model failed its self-check: %v", err)
		os.Exit(R.Finish())
	}
	registerAll()

	// the case list: every registered pair meets every shape at least once per
	// round; rounds are fixed per tier
	type job struct {
		p     *pair
		idx   int
		shape string
	}
	var jobs []job
	total := R.N(3000, 60000)
	for i := 0; len(jobs) < total; i++ {
		p := &registry[i%len(registry)]
		// walk shapes so that pair i and round j never keep hitting the same shape
		round := i / len(registry)
		shape := dict.Shapes[(i%len(registry)+round*5)%len(dict.Shapes)]
		if shape == "random-large" && round%3 != 0 {
			shape = "random-small"
		}
		jobs = append(jobs, job{p, i, shape})
	}
	workers := runtime.NumCPU()
	if workers > 16 {
		workers = 16
	}
	ch := make(chan job)
	var wg sync.WaitGroup
	for w := 0; w < workers; w++ {
		wg.Add(1)
		go func() {
			defer wg.Done()
			for j := range ch {
				if p := mon.Guard(func() { runCase(j.p.ops, j.idx, j.shape) }); p != nil {
					R.HarnessError("case %d (%s/%s, %s) panicked outside a guarded tongo call: %s\n%s", j.idx, j.p.kname, j.p.vname, j.shape, p.Value, mon.Trunc(p.Stack, 1200))
				}
			}
		}()
	}
	for _, j := range jobs {
		ch <- j
	}
	close(ch)
	wg.Wait()
	libDescrs()
	configParams()
	highloadPayloads()
	var pairs []string
	for _, p := range registry {
		pairs = append(pairs, p.kname+"/"+p.vname)
	}
	sort.Strings(pairs)
	R.Extra("registered_type_pairs", len(pairs))
	os.Exit(R.Finish())
}
