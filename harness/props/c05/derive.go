// C05, operations that DERIVE something from a decoded dictionary must leave
// the dictionary they were called on as it was: "lookups and updates on the
// decoded dictionary agree with that mapping" holds for the whole life of the
// object, not only until the first call that hands out a part of it.
//
// The library's one exported derive-a-dictionary operation is
// ConfigParams.CloneKeepingSubsetOfKeys (tlb/proof.go, `_ config_addr:bits256
// config:^(Hashmap 32 ^Cell) = ConfigParams`). A case here decodes a
// reference-written ConfigParams and then runs a random script of: clone a
// subset (random / not a prefix of the key list / suffix / empty / all / with
// absent and repeated numbers), Put on a clone, Put on the original, Marshal
// of the original. After EVERY step the original (Items ascending, Keys/Values,
// Get of every present and some absent keys) and every clone made so far must
// equal their own Go-map models.
package main

import (
	"fmt"

	tboc "github.com/tonkeeper/tongo/boc"
	"github.com/tonkeeper/tongo/tlb"

	"verifharness/bridge"
	"verifharness/mon"
	rbits "verifharness/ref/bits"
	"verifharness/ref/cell"
	"verifharness/ref/dict"
)

type cfgDict = tlb.Hashmap[tlb.Uint32, tlb.Ref[tboc.Cell]]

func cfgItems(h cfgDict) []dict.Entry {
	items := h.Items()
	ks, vs := make([]tlb.Uint32, len(items)), make([]tlb.Ref[tboc.Cell], len(items))
	for i, it := range items {
		ks[i], vs[i] = it.Key, it.Value
	}
	return itemsOf(vRef, ks, vs)
}

// cfgCheck: the dictionary equals the model through every reader; "" when it does.
func cfgCheck(h cfgDict, m *modelT, r *mon.Rng) (class, diff string) {
	if d := diffEntries(cfgItems(h), m); d != "" {
		return "Items", d
	}
	if len(h.Keys()) != len(h.Values()) {
		return "Keys/Values", fmt.Sprintf("%d keys, %d values", len(h.Keys()), len(h.Values()))
	}
	if d := diffEntries(itemsOf(vRef, h.Keys(), h.Values()), m); d != "" {
		return "Keys/Values", d
	}
	var present [][]bool
	for _, e := range m.sorted() {
		present = append(present, e.Key)
		v, ok := h.Get(keyOf[tlb.Uint32](e.Key))
		if !ok {
			return "Get", "present key " + rbits.FiftHex(e.Key) + " not found"
		}
		if !sameValue(vRef.abs(v), e.Val) {
			return "Get", "key " + rbits.FiftHex(e.Key) + " has another value"
		}
	}
	for _, k := range absentKeys(r, m, domainOf[tlb.Uint32](), present, 6) {
		if _, ok := h.Get(keyOf[tlb.Uint32](k)); ok {
			return "Get", "absent key " + rbits.FiftHex(k) + " found"
		}
	}
	return "", ""
}

func configParams() {
	total := R.N(250, 6000)
	for i := 0; i < total; i++ {
		r := R.Rng("configparams", i)
		shape := dict.Shapes[1+i%(len(dict.Shapes)-1)]
		if p := mon.Guard(func() { configParamsCase(r, i, shape) }); p != nil {
			R.HarnessError("ConfigParams case %d (%s) panicked outside a guarded tongo call: %s\n%s", i, shape, p.Value, mon.Trunc(p.Stack, 1200))
		}
	}
}

type cfgClone struct {
	cp    tlb.ConfigParams
	model *modelT
	made  string
}

func configParamsCase(r *mon.Rng, idx int, shape string) {
	keys := dict.GenKeys(r, 32, shape, 40)
	if len(keys) == 0 {
		return
	}
	model := &modelT{n: 32, m: map[string]dict.Value{}}
	for _, k := range keys {
		model.m[dict.KeyString(k)] = vRef.gen(r, 0)
	}
	c := &ctx{kname: "Uint32", kkind: "uint", vname: "Ref[Cell]", shape: shape, idx: idx}
	addr := r.Bits(256)
	variant := mon.Pick(r, []string{"canonical", "canonical", "short", "long", "same", "mixed"})
	b := &dict.Builder{N: 32}
	if variant != "canonical" {
		b.Choose = chooser(variant, r.Fork("cfg", 0))
	}
	root, _, err := b.Root(model.sorted())
	if err != nil {
		R.HarnessError("reference writer failed (ConfigParams, %s): %v", variant, err)
		return
	}
	tc, via, err := deliver(r, cell.New(addr, false, root), false)
	if err != nil {
		R.HarnessError("cannot deliver a ConfigParams (%s): %v", via, err)
		return
	}
	var trace []string
	wit := func(m *modelT, extra map[string]any) map[string]any {
		w := c.wit(m, map[string]any{"dictionary": "ConfigParams.config, foreign:" + variant + "/" + via, "script": append([]string(nil), trace...)})
		for k, v := range extra {
			w[k] = v
		}
		return w
	}
	var orig tlb.ConfigParams
	err, ok := guarded(c, model, "Unmarshal(ConfigParams)", func() error { return tlb.Unmarshal(tc, &orig) })
	if !ok {
		return
	}
	fp := fmt.Sprintf("cfg/%d/%x", len(model.m), root.Hash())
	R.Eval("xiv/decode/" + fp)
	R.Count("configparams_cases", 1)
	if err != nil {
		R.Violation(c.sig("error@Unmarshal(ConfigParams, foreign:"+variant+")"), wit(model, map[string]any{"err": err.Error(), "boc": bocHex(tc)}))
		return
	}
	if cls, d := cfgCheck(orig.Config, model, r); d != "" || !rbits.Equal(rbits.BytesBits(orig.ConfigAddr[:]), addr) {
		R.Violation(c.sig("decode-mismatch@ConfigParams/"+cls), wit(model, map[string]any{"diff": d, "boc": bocHex(tc)}))
		return
	}

	var clones []*cfgClone
	// everything that exists must still be what its model says
	verify := func(op string) bool {
		var cls, d string
		if p := mon.Guard(func() { cls, d = cfgCheck(orig.Config, model, r) }); p != nil {
			R.Violation(c.sig("panic@"+p.Site+"/original-after-"+op), wit(model, map[string]any{"panic": p.Value}))
			return false
		}
		if d != "" {
			R.Violation(c.sig("dictionary-changed-by-"+op+"@"+cls), wit(model, map[string]any{"diff": d, "note": "the decoded dictionary the operation was called on (or derived from) no longer is the mapping it was"}))
			return false
		}
		if !rbits.Equal(rbits.BytesBits(orig.ConfigAddr[:]), addr) {
			R.Violation(c.sig("dictionary-changed-by-"+op+"@ConfigAddr"), wit(model, nil))
			return false
		}
		for ci, cl := range clones {
			if p := mon.Guard(func() { cls, d = cfgCheck(cl.cp.Config, cl.model, r) }); p != nil {
				R.Violation(c.sig("panic@"+p.Site+"/clone-after-"+op), wit(cl.model, map[string]any{"panic": p.Value}))
				return false
			}
			if d != "" {
				R.Violation(c.sig("clone-changed-by-"+op+"@"+cls), wit(cl.model, map[string]any{"diff": d, "clone": ci, "clone_made_by": cl.made}))
				return false
			}
		}
		return true
	}

	es := model.sorted() // key list at decode time, ascending
	uintOf := func(k []bool) uint32 { return uint32(rbits.ToUint(k)) }
	steps := r.Range(2, 7)
	for s := 0; s < steps; s++ {
		op := r.Intn(8)
		if s == 0 {
			op = 0 // the first step always derives a clone
		}
		switch {
		case op <= 3: // clone a subset
			cur := model.sorted()
			var want [][]bool
			mode := mon.Pick(r, []string{"random", "random", "not-a-prefix", "not-a-prefix", "suffix", "last", "empty", "all"})
			switch mode {
			case "random":
				for _, e := range cur {
					if r.Bool() {
						want = append(want, e.Key)
					}
				}
			case "not-a-prefix": // drops at least one key in front of a kept one
				if len(cur) >= 2 {
					drop := r.Intn(len(cur) - 1)
					for j, e := range cur {
						if j != drop && (j == len(cur)-1 || r.Chance(2, 3)) {
							want = append(want, e.Key)
						}
					}
				}
			case "suffix":
				for _, e := range cur[r.Intn(len(cur)):] {
					want = append(want, e.Key)
				}
			case "last":
				want = append(want, cur[len(cur)-1].Key)
			case "all":
				for _, e := range cur {
					want = append(want, e.Key)
				}
			}
			cm := &modelT{n: 32, m: map[string]dict.Value{}}
			var arg []uint32
			for _, k := range want {
				cm.m[dict.KeyString(k)] = model.m[dict.KeyString(k)]
				arg = append(arg, uintOf(k))
			}
			// the argument is a plain list of numbers: any order, repeats, numbers that are not in the dictionary
			for _, k := range absentKeys(r, model, domainOf[tlb.Uint32](), nil, r.Intn(3)) {
				arg = append(arg, uintOf(k))
			}
			if len(arg) > 0 && r.Bool() {
				arg = append(arg, arg[r.Intn(len(arg))])
			}
			perm := r.Perm(len(arg))
			shuffled := make([]uint32, len(arg))
			for i, j := range perm {
				shuffled[i] = arg[j]
			}
			trace = append(trace, fmt.Sprintf("CloneKeepingSubsetOfKeys(%s: %d of %d keys)", mode, len(want), len(cur)))
			var cl tlb.ConfigParams
			if _, ok := guarded(c, model, "CloneKeepingSubsetOfKeys", func() error { cl = orig.CloneKeepingSubsetOfKeys(shuffled); return nil }); !ok {
				return
			}
			R.Eval(fmt.Sprintf("xiv/clone/%s/%s/%d", mode, fp, s))
			R.Count("configparams_clones", 1)
			if len(want) > 0 && len(want) < len(cur) && !rbits.Equal(want[0], cur[0].Key) {
				R.Count("configparams_clones_not_a_prefix", 1)
			}
			var cls, d string
			if p := mon.Guard(func() { cls, d = cfgCheck(cl.Config, cm, r) }); p != nil {
				R.Violation(c.sig("panic@"+p.Site+"/clone"), wit(cm, map[string]any{"panic": p.Value}))
				return
			}
			if d != "" || cl.ConfigAddr != orig.ConfigAddr {
				R.Violation(c.sig("wrong-mapping@CloneKeepingSubsetOfKeys/"+cls), wit(cm, map[string]any{"diff": d, "asked_for": shuffled}))
				return
			}
			clones = append(clones, &cfgClone{cp: cl, model: cm, made: trace[len(trace)-1]})
			if !verify("CloneKeepingSubsetOfKeys") {
				return
			}
		case op <= 5: // Put on a clone or on the original: everybody else is untouched
			target, tm, name := &orig, model, "original"
			if len(clones) > 0 && r.Chance(2, 3) {
				cl := clones[r.Intn(len(clones))]
				target, tm, name = &cl.cp, cl.model, "clone"
			}
			var k []bool
			kind := "update"
			if cur := tm.sorted(); len(cur) > 0 && r.Bool() {
				k = cur[r.Intn(len(cur))].Key
			} else if abs := absentKeys(r, tm, domainOf[tlb.Uint32](), [][]bool{es[r.Intn(len(es))].Key}, 1); len(abs) > 0 {
				k, kind = abs[0], "insert"
			} else {
				continue
			}
			nv := vRef.gen(r, 0)
			trace = append(trace, fmt.Sprintf("Put(%s of %s) on the %s", kind, rbits.FiftHex(k), name))
			if _, ok := guarded(c, tm, "Put("+name+")", func() error { target.Config.Put(keyOf[tlb.Uint32](k), vRef.mk(nv)); return nil }); !ok {
				return
			}
			tm.m[dict.KeyString(k)] = nv
			R.Eval(fmt.Sprintf("xiv/put/%s/%s/%d", name, fp, s))
			if !verify("Put(on the " + name + ")") {
				return
			}
		default: // Marshal of the original: read by the reference, and the object is still itself
			trace = append(trace, "Marshal(original)")
			out := tboc.NewCell()
			err, ok := guarded(c, model, "Marshal(ConfigParams)", func() error { return tlb.Marshal(out, orig) })
			if !ok {
				return
			}
			R.Eval(fmt.Sprintf("xiv/marshal/%s/%d", fp, s))
			if err != nil {
				R.Violation(c.sig("error@Marshal(ConfigParams in use)"), wit(model, map[string]any{"err": err.Error()}))
				return
			}
			rc := bridge.FromTongo(out)
			d := ""
			if !rbits.Equal(rc.Bits, addr) || len(rc.Refs) != 1 {
				d = fmt.Sprintf("%d bits and %d references, want config_addr and one reference", len(rc.Bits), len(rc.Refs))
			} else if parsed, perr := (&dict.Reader{N: 32}).Parse(rc.Refs[0]); perr != nil {
				d = "reference reader: " + perr.Error()
			} else {
				d = diffEntries(parsed.Entries, model)
			}
			if d != "" {
				R.Violation(c.sig("wrong-mapping@Marshal(ConfigParams in use)"), wit(model, map[string]any{"diff": d, "boc": bocHex(out)}))
				return
			}
			if !verify("Marshal") {
				return
			}
		}
	}
}

// ------------------------------------------------------------------ lookups on the cell tree

// proveLookups: tlb.ProveKeyInHashmap is the library's lookup that walks the
// cell tree instead of a decoded object; "lookups on the dictionary agree
// with that mapping" applies to it like to Get: a present key is found with
// its value, an absent key is not found (any error counts as not found; the
// proof it returns besides is C18's subject). holder is the cell of a
// HashmapE (bit + reference to the root).
func proveLookups(c *ctx, model *modelT, holder *tboc.Cell, what string, r *mon.Rng, fp string) bool {
	sz := len(model.m)
	if sz == 0 || sz > 300 || c.o == nil || c.o.prove == nil || len(holder.Refs()) != 1 {
		return true
	}
	root := holder.Refs()[0]
	es := model.sorted()
	n := model.n
	w := func(extra map[string]any) map[string]any {
		m := c.wit(model, map[string]any{"dictionary": what, "boc": bocHex(holder)})
		for k, v := range extra {
			m[k] = v
		}
		return m
	}
	// present keys
	for _, i := range r.Perm(sz)[:min(sz, 3)] {
		var v dict.Value
		var found, usable bool
		if _, ok := guarded(c, model, "ProveKeyInHashmap("+classOf(what)+")", func() error { v, found, usable = c.o.prove(root, es[i].Key); return nil }); !ok {
			return false
		}
		if !usable {
			R.Count("prove_lookups_unavailable", 1)
			return true
		}
		R.Eval(prefixFP("xv/present/"+what, fp+rbits.FiftHex(es[i].Key)))
		R.Count("prove_lookups_present", 1)
		if !found || !sameValue(v, es[i].Val) {
			R.Violation(c.sig("prove-mismatch@present-key("+classOf(what)+")"), w(map[string]any{"key": rbits.FiftHex(es[i].Key), "found": found, "got": showValue(v), "want": showValue(es[i].Val)}))
			return false
		}
	}
	// absent keys: a present key with one bit flipped in the last position, among the last few bits (inside the
	// leaf label when there is one), anywhere; plus what absentKeys draws
	var absent [][]bool
	seen := map[string]bool{}
	add := func(k []bool) {
		ks := dict.KeyString(k)
		if _, in := model.m[ks]; !in && !seen[ks] {
			seen[ks] = true
			absent = append(absent, k)
		}
	}
	free := c.o.dom.inner // only these trailing bits can vary for every key type
	for t := 0; t < 4; t++ {
		p := es[r.Intn(sz)].Key
		for _, j := range []int{n - 1, n - 1 - r.Intn(min(free, 6)), n - 1 - r.Intn(free)} {
			k := append([]bool(nil), p...)
			k[j] = !k[j]
			add(k)
		}
	}
	present := make([][]bool, sz)
	for i := range es {
		present[i] = es[i].Key
	}
	for _, k := range absentKeys(r, model, c.o.dom, present, 3) {
		add(k)
	}
	if len(absent) > 8 {
		absent = absent[:8]
	}
	for _, k := range absent {
		var v dict.Value
		var found, usable bool
		if _, ok := guarded(c, model, "ProveKeyInHashmap("+classOf(what)+")", func() error { v, found, usable = c.o.prove(root, k); return nil }); !ok {
			return false
		}
		if !usable {
			return true
		}
		R.Eval(prefixFP("xv/absent/"+what, fp+rbits.FiftHex(k)))
		R.Count("prove_lookups_absent", 1)
		if found {
			R.Violation(c.sig("prove-mismatch@absent-key("+classOf(what)+")"), w(map[string]any{"key": rbits.FiftHex(k), "found_value": showValue(v), "note": "the key is not in the dictionary"}))
			return false
		}
	}
	holder.ResetCounters()
	return true
}
