// C05, plain dictionaries written IN LINE.
//
// `Hashmap n X` and `HashmapAug n X Y` (without the E) have no cell of their
// own at the root: the root edge (label, then either the value or the two
// branch references [and the extra]) is written straight into the cell of
// the enclosing constructor, between the bits and references of the
// neighbouring fields:
//
//	shared_lib_descr$00 lib:^Cell publishers:(Hashmap 256 True) = LibDescr;
//	acc_trans#5 account_addr:bits256 transactions:(HashmapAug 64 ^Transaction CurrencyCollection) state_update:^(HASH_UPDATE Account) = AccountBlock;
//
// Such a dictionary is as valid as any other; the statement's "any valid TON
// dictionary decodes to the mapping it represents" covers it. The sections
// here splice the root written by the reference (every label form) between
// random neighbour bits and references, let tongo read the neighbours that
// come first, decode the dictionary at the cursor, and then read the
// neighbours that follow. The other direction: tongo marshals NewHashmap in
// line into a cell that already holds something, the reference reads it.
// Also here: the second label parser of tlb/hashmap.go (loadLabelSize, behind
// BlockExtra.InMsgDescrLength/OutMsgDescrLength) and the real type tlb.LibDescr.
package main

import (
	"fmt"

	tboc "github.com/tonkeeper/tongo/boc"
	"github.com/tonkeeper/tongo/tlb"

	"verifharness/bridge"
	"verifharness/mon"
	rbits "verifharness/ref/bits"
	rboc "verifharness/ref/boc"
	"verifharness/ref/cell"
	"verifharness/ref/dict"
)

// neighbours are the fields around an in-line dictionary.
type neighbours struct {
	pre, post         []bool
	preRefs, postRefs []*cell.Cell
}

func (nb *neighbours) describe() map[string]any {
	return map[string]any{"bits_before": len(nb.pre), "bits_after": len(nb.post), "refs_before": len(nb.preRefs), "refs_after": len(nb.postRefs)}
}

func (nb *neighbours) class() string {
	return fmt.Sprintf("refs:%d+%d", len(nb.preRefs), len(nb.postRefs))
}

// drawNeighbours: dictRefs references belong to the root of the dictionary itself.
func drawNeighbours(r *mon.Rng, dictRefs int) *neighbours {
	free := 4 - dictRefs
	if free < 0 {
		free = 0
	}
	p := r.Intn(min(free, 2) + 1)
	q := r.Intn(free - p + 1)
	if free > 0 && p+q == 0 && r.Chance(5, 6) {
		if r.Bool() {
			p = 1
		} else {
			q = 1
		}
	}
	nb := &neighbours{pre: r.Bits(r.Intn(25)), post: r.Bits(r.Intn(41))}
	for i := 0; i < p; i++ {
		nb.preRefs = append(nb.preRefs, randTree(r, 1))
	}
	for i := 0; i < q; i++ {
		nb.postRefs = append(nb.postRefs, randTree(r, 1))
	}
	return nb
}

// holder is the enclosing cell: neighbours, the root edge in line, neighbours.
func (nb *neighbours) holder(root *cell.Cell) *cell.Cell {
	bits := append(append(append([]bool{}, nb.pre...), root.Bits...), nb.post...)
	refs := append(append(append([]*cell.Cell{}, nb.preRefs...), root.Refs...), nb.postRefs...)
	return cell.New(bits, false, refs...)
}

// carve is the inverse on what tongo wrote: the cell that holds only the root edge; "" when the neighbours are intact.
func (nb *neighbours) carve(rc *cell.Cell) (*cell.Cell, string) {
	if len(rc.Bits) < len(nb.pre)+len(nb.post) || len(rc.Refs) < len(nb.preRefs)+len(nb.postRefs) {
		return nil, fmt.Sprintf("cell has %d bits and %d references, fewer than the neighbouring fields alone", len(rc.Bits), len(rc.Refs))
	}
	if !rbits.Equal(rc.Bits[:len(nb.pre)], nb.pre) || !rbits.Equal(rc.Bits[len(rc.Bits)-len(nb.post):], nb.post) {
		return nil, "bits of the neighbouring fields changed"
	}
	for i, x := range nb.preRefs {
		if rc.Refs[i].Hash() != x.Hash() {
			return nil, fmt.Sprintf("reference %d (a field before the dictionary) changed", i)
		}
	}
	for i, x := range nb.postRefs {
		if rc.Refs[len(rc.Refs)-len(nb.postRefs)+i].Hash() != x.Hash() {
			return nil, fmt.Sprintf("reference after the dictionary (%d) changed", i)
		}
	}
	return cell.New(rc.Bits[len(nb.pre):len(rc.Bits)-len(nb.post)], false, rc.Refs[len(nb.preRefs):len(rc.Refs)-len(nb.postRefs)]...), ""
}

func deliver(r *mon.Rng, h *cell.Cell, forceBoc bool) (*tboc.Cell, string, error) {
	if !forceBoc && r.Bool() {
		tc, err := bridge.ToTongoBuilt(h)
		return tc, "built", err
	}
	cs, _, err := bridge.ToTongoParsed([]*cell.Cell{h}, rboc.Options{})
	if err != nil {
		return nil, "boc", err
	}
	return cs[0], "boc", nil
}

// readBefore consumes the neighbour fields in front of the dictionary the way a hand-written decoder would.
func (nb *neighbours) readBefore(tc *tboc.Cell) error {
	if _, err := tc.ReadBits(len(nb.pre)); err != nil {
		return err
	}
	for range nb.preRefs {
		if _, err := tc.NextRef(); err != nil {
			return err
		}
	}
	return nil
}

// readAfter reads the fields that follow; "" when they come out as written and nothing is left.
func (nb *neighbours) readAfter(tc *tboc.Cell) string {
	bs, err := tc.ReadBits(len(nb.post))
	if err != nil {
		return fmt.Sprintf("the %d bits of the following field cannot be read: %v (%d bits left)", len(nb.post), err, tc.BitsAvailableForRead())
	}
	if !rbits.Equal(bridge.Bits(bs), nb.post) {
		return "the bits of the following field read back differently (the dictionary consumed too few or too many bits)"
	}
	for i, x := range nb.postRefs {
		ref, err := tc.NextRef()
		if err != nil {
			return fmt.Sprintf("following reference %d cannot be read: %v", i, err)
		}
		if bridge.FromTongo(ref).Hash() != x.Hash() {
			return fmt.Sprintf("following reference %d is another cell (the dictionary consumed too few or too many references)", i)
		}
	}
	if tc.BitsAvailableForRead() != 0 || tc.RefsAvailableForRead() != 0 {
		return fmt.Sprintf("%d bits and %d references left over", tc.BitsAvailableForRead(), tc.RefsAvailableForRead())
	}
	return ""
}

func rootRefs(es []dict.Entry) int {
	if len(es) >= 2 {
		return 2
	}
	return len(es[0].Val.Refs)
}

// decodeInline: tongo reads the leading neighbours, the plain Hashmap at the cursor, the trailing neighbours.
func decodeInline(c *ctx, model *modelT, tc *tboc.Cell, nb *neighbours, what, fp string, r *mon.Rng) bool {
	w := func(extra map[string]any) map[string]any {
		m := c.wit(model, nb.describe())
		m["dictionary"], m["boc"] = "Hashmap (in line), "+what, bocHex(tc)
		for k, v := range extra {
			m[k] = v
		}
		return m
	}
	if err := nb.readBefore(tc); err != nil {
		R.HarnessError("cannot read the fields in front of an in-line dictionary: %v", err)
		return false
	}
	var kv, items []dict.Entry
	var get func([]bool) (dict.Value, bool)
	err, ok := guarded(c, model, "Unmarshal(Hashmap in line, "+classOf(what)+")", func() (e error) { kv, items, get, e = c.o.decodeHmAt(tc); return })
	if !ok {
		return false
	}
	R.Eval(prefixFP("ix/"+what+"/"+nb.class(), fp))
	R.Seen("inline_layouts", nb.class())
	R.Count("inline_hashmaps_decoded", 1)
	if len(model.m) >= 2 && len(nb.preRefs)+len(nb.postRefs) > 0 {
		R.Count("inline_root_fork_next_to_other_refs", 1)
	}
	if err != nil {
		R.Violation(c.sig("error@Unmarshal(Hashmap in line, "+what+")"), w(map[string]any{"err": err.Error()}))
		return false
	}
	if d := diffEntries(kv, model); d != "" {
		R.Violation(c.sig("decode-mismatch@Hashmap-in-line("+what+")"), w(map[string]any{"diff": d}))
		return false
	}
	if d := diffEntries(items, model); d != "" {
		R.Violation(c.sig("decode-mismatch@Hashmap-in-line/Items("+what+")"), w(map[string]any{"diff": d}))
		return false
	}
	if d := nb.readAfter(tc); d != "" {
		R.Violation(c.sig("neighbour-fields-misread@after-Hashmap-in-line("+classOf(what)+")"), w(map[string]any{"diff": d}))
		return false
	}
	// lookups on the decoded plain Hashmap
	es := model.sorted()
	present := make([][]bool, len(es))
	for i := range es {
		present[i] = es[i].Key
	}
	probe := identity(len(es))
	if len(probe) > 16 {
		probe = r.Perm(len(es))[:16]
	}
	for _, i := range probe {
		var v dict.Value
		var found bool
		if _, ok := guarded(c, model, "Hashmap.Get", func() error { v, found = get(es[i].Key); return nil }); !ok {
			return false
		}
		if !found || !sameValue(v, es[i].Val) {
			R.Violation(c.sig("get-mismatch@present-key(Hashmap in line)"), w(map[string]any{"key": rbits.FiftHex(es[i].Key), "found": found}))
			return false
		}
	}
	for _, k := range absentKeys(r, model, c.o.dom, present, 6) {
		var found bool
		if _, ok := guarded(c, model, "Hashmap.Get", func() error { _, found = get(k); return nil }); !ok {
			return false
		}
		if found {
			R.Violation(c.sig("get-mismatch@absent-key(Hashmap in line)"), w(map[string]any{"key": rbits.FiftHex(k)}))
			return false
		}
	}
	return true
}

func inlineDicts(c *ctx, model *modelT, r *mon.Rng, fp string) bool {
	o := c.o
	es := model.sorted()
	sz, n := len(es), model.n
	if sz == 0 || o.decodeHmAt == nil {
		return true
	}
	if sz == 1 && o.vname == "Any" {
		// X = Any takes the rest of the cell: nothing can follow a root leaf in line
		R.Count("inline_skipped_any_in_root_leaf", 1)
		return true
	}
	// ---- (ix) reference-written root, every label form, spliced between neighbours
	variants := []string{"canonical", mon.Pick(r, []string{"short", "long", "same", "mixed"})}
	for vi, variant := range variants {
		fr := r.Fork("inline", vi)
		nb := drawNeighbours(fr, rootRefs(es))
		b := &dict.Builder{N: n}
		if variant != "canonical" {
			inner, taken := chooser(variant, fr), len(nb.pre)+len(nb.post)
			b.Choose = func(label []bool, m, depth, room int) dict.Form {
				if depth == 0 {
					room -= taken
				}
				return inner(label, m, depth, room)
			}
		}
		root, _, err := b.Root(es)
		if err != nil {
			R.HarnessError("reference writer failed (in line, %s, %s, %d keys): %v", c.kname, variant, sz, err)
			return false
		}
		if len(nb.pre)+len(root.Bits)+len(nb.post) > 1023 {
			R.Count("inline_skipped_no_room", 1)
			continue
		}
		tc, via, err := deliver(fr, nb.holder(root), false)
		if err != nil {
			R.HarnessError("cannot deliver an in-line dictionary to tongo (%s): %v", via, err)
			return false
		}
		R.Seen("inline_variants", variant+"/"+via)
		if !decodeInline(c, model, tc, nb, "foreign:"+variant, fp, fr) {
			return false
		}
	}

	// ---- (x) tongo writes NewHashmap (keys in a random order) in line into a cell that holds other fields
	{
		fr := r.Fork("inline-own", 0)
		nb := drawNeighbours(fr, rootRefs(es))
		tc := tboc.NewCell()
		put := func(bits []bool, refs []*cell.Cell) error {
			for _, b := range bits {
				if err := tc.WriteBit(b); err != nil {
					return err
				}
			}
			for _, x := range refs {
				if err := tc.AddRef(mustBuilt(x)); err != nil {
					return err
				}
			}
			return nil
		}
		if err := put(nb.pre, nb.preRefs); err != nil {
			R.HarnessError("cannot write the fields in front of an in-line dictionary: %v", err)
			return false
		}
		perm := fr.Perm(sz)
		keys, vals := make([][]bool, sz), make([]dict.Value, sz)
		for i, j := range perm {
			keys[i], vals[i] = es[j].Key, es[j].Val
		}
		err, ok := guarded(c, model, "Marshal(NewHashmap in line)", func() error { return o.marshalHm(tc, keys, vals) })
		if !ok {
			return false
		}
		R.Eval(prefixFP("x/"+nb.class(), fp))
		w := c.wit(model, nb.describe())
		if err != nil {
			R.Violation(c.sig("error@Marshal(NewHashmap in line)"), addTo(w, "err", err.Error()))
			return false
		}
		if err := put(nb.post, nb.postRefs); err != nil {
			R.Violation(c.sig("invalid-hashmap@own-in-line"), addTo(w, "diff", "the fields after the dictionary no longer fit: "+err.Error()))
			return false
		}
		rootCell, d := nb.carve(bridge.FromTongo(tc))
		if d != "" {
			R.Violation(c.sig("invalid-hashmap@own-in-line"), addTo(addTo(w, "diff", d), "boc", bocHex(tc)))
			return false
		}
		parsed, perr := (&dict.Reader{N: n}).Parse(rootCell)
		if perr != nil {
			R.Violation(c.sig("invalid-hashmap@own-in-line"), addTo(addTo(w, "reference_reader", perr.Error()), "boc", bocHex(tc)))
			return false
		}
		if d := diffEntries(parsed.Entries, model); d != "" {
			R.Violation(c.sig("wrong-mapping@own-in-line(read by reference)"), addTo(addTo(w, "diff", d), "boc", bocHex(tc)))
			return false
		}
		tc.ResetCounters()
		if !decodeInline(c, model, tc, nb, "own-encoding", fp, fr) {
			return false
		}
	}

	// ---- (xi) HashmapAug n X uint32 in line (only Values() is exported) + decoding twice into one variable
	if o.decodeAugAt == nil {
		return true
	}
	aes := model.sorted()
	for i := range aes {
		aes[i].Extra = dict.Value{Bits: r.Bits(32)}
		if len(aes[i].Val.Bits) > 1023-(2+10+n)-32-70 {
			R.Count("inline_aug_skipped_no_room", 1)
			return true
		}
	}
	fr := r.Fork("inline-aug", 0)
	variant := mon.Pick(fr, []string{"canonical", "mixed", "same", "short"})
	nb := drawNeighbours(fr, rootRefs(aes))
	b := &dict.Builder{N: n, Aug: true, Fork: func(l, rr dict.Value) dict.Value {
		return dict.Value{Bits: rbits.UintBits((rbits.ToUint(l.Bits)+rbits.ToUint(rr.Bits))&0xffffffff, 32)}
	}}
	if variant != "canonical" {
		inner, taken := chooser(variant, fr), len(nb.pre)+len(nb.post)
		b.Choose = func(label []bool, m, depth, room int) dict.Form {
			if depth == 0 {
				room -= taken
			}
			return inner(label, m, depth, room)
		}
	}
	root, _, err := b.Root(aes)
	if err != nil {
		R.HarnessError("reference writer failed (augmented in line, %s): %v", c.kname, err)
		return false
	}
	if len(nb.pre)+len(root.Bits)+len(nb.post) > 1023 {
		R.Count("inline_aug_skipped_no_room", 1)
		return true
	}
	tc, via, err := deliver(fr, nb.holder(root), false)
	if err != nil {
		R.HarnessError("cannot deliver an in-line augmented dictionary (%s): %v", via, err)
		return false
	}
	w := c.wit(model, nb.describe())
	w["dictionary"], w["boc"] = "HashmapAug (in line), foreign:"+variant+"/"+via, bocHex(tc)
	if err := nb.readBefore(tc); err != nil {
		R.HarnessError("cannot read the fields in front of an in-line augmented dictionary: %v", err)
		return false
	}
	var vals []dict.Value
	err, ok := guarded(c, model, "Unmarshal(HashmapAug in line)", func() (e error) { vals, e = o.decodeAugAt(tc); return })
	if !ok {
		return false
	}
	R.Eval(prefixFP("xi/"+variant+"/"+nb.class(), fp))
	R.Count("inline_augmented_decoded", 1)
	if err != nil {
		R.Violation(c.sig("error@Unmarshal(HashmapAug in line, foreign:"+variant+")"), addTo(w, "err", err.Error()))
		return false
	}
	if d := diffValues(vals, aes); d != "" {
		R.Violation(c.sig("decode-mismatch@HashmapAug-in-line(foreign:"+variant+")"), addTo(w, "diff", d))
		return false
	}
	if d := nb.readAfter(tc); d != "" {
		R.Violation(c.sig("neighbour-fields-misread@after-HashmapAug-in-line"), addTo(w, "diff", d))
		return false
	}
	// the same dictionary decoded into a variable that already holds a dictionary
	bare := cell.New(root.Bits, false, root.Refs...)
	ta, err1 := bridge.ToTongoBuilt(bare)
	tb, err2 := bridge.ToTongoBuilt(bare)
	if err1 != nil || err2 != nil {
		R.HarnessError("cannot deliver an augmented dictionary: %v %v", err1, err2)
		return false
	}
	err, ok = guarded(c, model, "Unmarshal(HashmapAug over another dictionary)", func() (e error) { vals, e = o.decodeAugOver(ta, tb); return })
	if !ok {
		return false
	}
	R.Eval(prefixFP("xi-over", fp))
	if err != nil {
		R.Violation(c.sig("error@Unmarshal(HashmapAug into used variable)"), addTo(w, "err", err.Error()))
		return false
	}
	if d := diffValues(vals, aes); d != "" {
		R.Violation(c.sig("decode-mismatch@into-used-variable(HashmapAug)"), addTo(addTo(w, "diff", d), "note", "the variable held a dictionary before"))
		return false
	}
	return true
}

// diffValues: values listed by a dictionary that exports no keys, against the model in ascending key order.
func diffValues(got []dict.Value, want []dict.Entry) string {
	if len(got) != len(want) {
		return fmt.Sprintf("%d values, want %d", len(got), len(want))
	}
	for i := range want {
		if !sameValue(got[i], want[i].Val) {
			return fmt.Sprintf("value %d (key %s): %s, want %s", i, rbits.FiftHex(want[i].Key), showValue(got[i]), showValue(want[i].Val))
		}
	}
	return ""
}

// ------------------------------------------------------------------ the second label parser

// countLeaves: tlb/hashmap.go has a second walk over a dictionary (countLeafs
// with its own label parser loadLabelSize); it is exported through
// BlockExtra.InMsgDescrLength / OutMsgDescrLength for 256-bit keys. The number
// of entries of the mapping is what it claims to return. tc holds a
// HashmapE / HashmapAugE (the walk does not look at values or extras).
func countLeaves(c *ctx, model *modelT, tc *tboc.Cell, what, fp string) bool {
	if c.kname != "Bits256" {
		return true
	}
	var in, out int
	err, ok := guarded(c, model, "InMsgDescrLength("+classOf(what)+")", func() (e error) {
		ex := tlb.BlockExtra{InMsgDescrCell: *tc, OutMsgDescrCell: *tc}
		if in, e = ex.InMsgDescrLength(); e != nil {
			return
		}
		out, e = ex.OutMsgDescrLength()
		return
	})
	if !ok {
		return false
	}
	R.Eval(prefixFP("xii/"+what, fp))
	R.Count("leaf_counts_compared", 1)
	if err != nil {
		R.Violation(c.sig("error@InMsgDescrLength("+what+")"), c.wit(model, map[string]any{"err": err.Error(), "boc": bocHex(tc)}))
		return false
	}
	if in != len(model.m) || out != len(model.m) {
		R.Violation(c.sig("leaf-count-mismatch@InMsgDescrLength("+what+")"), c.wit(model, map[string]any{"in": in, "out": out, "boc": bocHex(tc)}))
		return false
	}
	return true
}

// ------------------------------------------------------------------ tlb.LibDescr

// libDescrs: the library's own type with an in-line set next to a reference,
// shared_lib_descr$00 lib:^Cell publishers:(Hashmap 256 True), alone and as
// the value of a HashmapE 256 LibDescr (ShardStateUnsplit.libraries).
func libDescrs() {
	total := R.N(120, 3000)
	for i := 0; i < total; i++ {
		r := R.Rng("libdescr", i)
		shape := dict.Shapes[1+i%(len(dict.Shapes)-1)] // not "empty": Hashmap n X has no empty form
		if p := mon.Guard(func() { libDescrCase(r, i, shape) }); p != nil {
			R.HarnessError("LibDescr case %d (%s) panicked outside a guarded tongo call: %s\n%s", i, shape, p.Value, mon.Trunc(p.Stack, 1200))
		}
	}
}

func libDescrCase(r *mon.Rng, idx int, shape string) {
	keys := dict.GenKeys(r, 256, shape, 40)
	if len(keys) == 0 {
		return
	}
	model := &modelT{n: 256, m: map[string]dict.Value{}}
	for _, k := range keys {
		model.m[dict.KeyString(k)] = dict.Value{}
	}
	es := model.sorted()
	c := &ctx{kname: "Bits256", kkind: "bits", vname: "True", shape: shape, idx: idx}
	lib := randTree(r, 2)
	fp := fmt.Sprintf("libdescr/%d/%x", len(es), lib.Hash())
	R.Count("libdescr_cases", 1)
	if len(es) >= 2 {
		R.Count("libdescr_two_or_more_publishers", 1)
	}
	publishers := func(h tlb.Hashmap[tlb.Bits256, struct{}]) []dict.Entry {
		ks := h.Keys()
		out := make([]dict.Entry, len(ks))
		for i := range ks {
			out[i].Key = rbits.BytesBits(ks[i][:])
		}
		return out
	}
	// foreign, every label form
	for vi, variant := range []string{"canonical", "short", "long", "same", "mixed"} {
		fr := r.Fork("libdescr", vi)
		b := &dict.Builder{N: 256}
		if variant != "canonical" {
			inner := chooser(variant, fr)
			b.Choose = func(label []bool, m, depth, room int) dict.Form {
				if depth == 0 {
					room -= 2
				}
				return inner(label, m, depth, room)
			}
		}
		root, _, err := b.Root(es)
		if err != nil {
			R.HarnessError("reference writer failed (LibDescr, %s): %v", variant, err)
			return
		}
		h := cell.New(append([]bool{false, false}, root.Bits...), false, append([]*cell.Cell{lib}, root.Refs...)...)
		tc, via, err := deliver(fr, h, false)
		if err != nil {
			R.HarnessError("cannot deliver a LibDescr (%s): %v", via, err)
			return
		}
		var ld tlb.LibDescr
		err, ok := guarded(c, model, "Unmarshal(LibDescr)", func() error { return tlb.Unmarshal(tc, &ld) })
		if !ok {
			return
		}
		R.Eval("xiii/" + variant + "/" + fp)
		w := c.wit(model, map[string]any{"dictionary": "LibDescr.publishers, foreign:" + variant + "/" + via, "boc": bocHex(tc)})
		if err != nil {
			R.Violation(c.sig("error@Unmarshal(LibDescr, foreign:"+variant+")"), addTo(w, "err", err.Error()))
			return
		}
		if d := diffEntries(publishers(ld.Publishers), model); d != "" {
			R.Violation(c.sig("decode-mismatch@LibDescr.publishers(foreign:"+variant+")"), addTo(w, "diff", d))
			return
		}
		lc := ld.Lib
		if bridge.FromTongo(&lc).Hash() != lib.Hash() || tc.BitsAvailableForRead() != 0 || tc.RefsAvailableForRead() != 0 {
			R.Violation(c.sig("neighbour-fields-misread@LibDescr"), addTo(w, "diff", "lib is another cell, or something of the cell was not consumed"))
			return
		}
	}
	// own: Marshal(LibDescr) read by the reference, then by tongo again
	{
		perm := r.Perm(len(es))
		ks := make([]tlb.Bits256, len(es))
		for i, j := range perm {
			copy(ks[i][:], rbits.ToBytes(es[j].Key))
		}
		ld := tlb.LibDescr{Lib: *mustBuilt(lib), Publishers: tlb.NewHashmap(ks, make([]struct{}, len(ks)))}
		tc := tboc.NewCell()
		err, ok := guarded(c, model, "Marshal(LibDescr)", func() error { return tlb.Marshal(tc, ld) })
		if !ok {
			return
		}
		R.Eval("xiii/own/" + fp)
		w := c.wit(model, map[string]any{"dictionary": "LibDescr.publishers, own encoding"})
		if err != nil {
			R.Violation(c.sig("error@Marshal(LibDescr)"), addTo(w, "err", err.Error()))
			return
		}
		nb := &neighbours{pre: []bool{false, false}, preRefs: []*cell.Cell{lib}}
		rootCell, d := nb.carve(bridge.FromTongo(tc))
		var parsed *dict.Parsed
		if d == "" {
			var perr error
			if parsed, perr = (&dict.Reader{N: 256}).Parse(rootCell); perr != nil {
				d = "reference reader: " + perr.Error()
			}
		}
		if d == "" {
			d = diffEntries(parsed.Entries, model)
		}
		if d != "" {
			R.Violation(c.sig("wrong-mapping@own-LibDescr(read by reference)"), addTo(addTo(w, "diff", d), "boc", bocHex(tc)))
			return
		}
		var back tlb.LibDescr
		tc.ResetCounters()
		err, ok = guarded(c, model, "Unmarshal(LibDescr)", func() error { return tlb.Unmarshal(tc, &back) })
		if !ok {
			return
		}
		if err != nil {
			R.Violation(c.sig("error@Unmarshal(LibDescr, own-encoding)"), addTo(w, "err", err.Error()))
			return
		}
		if d := diffEntries(publishers(back.Publishers), model); d != "" {
			R.Violation(c.sig("decode-mismatch@LibDescr.publishers(own-encoding)"), addTo(w, "diff", d))
			return
		}
	}
	// as the value of a HashmapE 256 LibDescr: one outer entry per publisher set (1..3 outer keys, same inner set)
	{
		fr := r.Fork("libdescr-outer", 0)
		inner := &dict.Builder{N: 256}
		if fr.Bool() {
			ch := chooser("mixed", fr)
			inner.Choose = func(label []bool, m, depth, room int) dict.Form {
				if depth == 0 {
					room -= 2 + 2 + 9 + 256 // the constructor tag and the outer label share the cell
				}
				return ch(label, m, depth, room)
			}
		}
		root, _, err := inner.Root(es)
		if err != nil {
			R.HarnessError("reference writer failed (LibDescr inner): %v", err)
			return
		}
		val := dict.Value{Bits: append([]bool{false, false}, root.Bits...), Refs: append([]*cell.Cell{lib}, root.Refs...)}
		var outer []dict.Entry
		for _, k := range dict.GenKeys(fr, 256, "random-small", 3) {
			outer = append(outer, dict.Entry{Key: k, Val: val})
		}
		if len(outer) == 0 {
			return
		}
		hv, err := (&dict.Builder{N: 256}).HashmapE(outer)
		if err != nil {
			R.Count("libdescr_outer_skipped_no_room", 1)
			return
		}
		tc, via, err := deliver(fr, wrapE(hv), false)
		if err != nil {
			R.HarnessError("cannot deliver a HashmapE 256 LibDescr (%s): %v", via, err)
			return
		}
		var libs tlb.HashmapE[tlb.Bits256, tlb.LibDescr]
		err, ok := guarded(c, model, "Unmarshal(HashmapE 256 LibDescr)", func() error { return tlb.Unmarshal(tc, &libs) })
		if !ok {
			return
		}
		R.Eval("xiii/outer/" + fp)
		w := c.wit(model, map[string]any{"dictionary": "HashmapE 256 LibDescr, " + via, "outer_entries": len(outer), "boc": bocHex(tc)})
		if err != nil {
			R.Violation(c.sig("error@Unmarshal(HashmapE 256 LibDescr)"), addTo(w, "err", err.Error()))
			return
		}
		items := libs.Items()
		if len(items) != len(outer) {
			R.Violation(c.sig("decode-mismatch@HashmapE-256-LibDescr"), addTo(w, "diff", fmt.Sprintf("%d outer entries, want %d", len(items), len(outer))))
			return
		}
		dict.SortEntries(outer)
		for i, it := range items {
			if !rbits.Equal(rbits.BytesBits(it.Key[:]), outer[i].Key) {
				R.Violation(c.sig("decode-mismatch@HashmapE-256-LibDescr"), addTo(w, "diff", fmt.Sprintf("outer key %d differs", i)))
				return
			}
			if d := diffEntries(publishers(it.Value.Publishers), model); d != "" {
				R.Violation(c.sig("decode-mismatch@LibDescr.publishers(inside HashmapE)"), addTo(w, "diff", d))
				return
			}
		}
	}
}
