// C14 — wallet-built messages carry the requested transfers under a valid
// signature. Oracle: harness/ref/wallet (signature placement, body layouts,
// external/internal message decoders; validated at start-up against the
// captured network messages). See DESIGN.md §5 C14.
package main

import (
	"bytes"
	"context"
	"crypto/ed25519"
	"fmt"
	"math/big"
	"os"
	"runtime"
	"sync"
	"time"

	tboc "github.com/tonkeeper/tongo/boc"
	"github.com/tonkeeper/tongo/tlb"
	"github.com/tonkeeper/tongo/ton"
	twallet "github.com/tonkeeper/tongo/wallet"

	"verifharness/bridge"
	"verifharness/gen"
	"verifharness/mon"
	rbits "verifharness/ref/bits"
	rboc "verifharness/ref/boc"
	"verifharness/ref/cell"
	rwallet "verifharness/ref/wallet"
)

var R *mon.Run

type verSpec struct {
	name string
	t    twallet.Version
	r    rwallet.Version
	max  int
}

var specs = []verSpec{
	{"V3R1", twallet.V3R1, rwallet.V3R1, 4},
	{"V3R2", twallet.V3R2, rwallet.V3R2, 4},
	{"V4R1", twallet.V4R1, rwallet.V4R1, 4},
	{"V4R2", twallet.V4R2, rwallet.V4R2, 4},
	{"V5Beta", twallet.V5Beta, rwallet.V5Beta, 254},
	{"V5R1", twallet.V5R1, rwallet.V5R1, 255},
	{"HighLoadV2R2", twallet.HighLoadV2R2, rwallet.HighloadV2R2, 254},
}

// ---- scripted blockchain: answers the account state, captures payloads ----

type chain struct {
	mu    sync.Mutex
	sent  [][]byte
	state tlb.ShardAccount
	calls []string
}

func (c *chain) GetSeqno(ctx context.Context, a ton.AccountID) (uint32, error) {
	c.mu.Lock()
	c.calls = append(c.calls, "GetSeqno")
	c.mu.Unlock()
	return 0, fmt.Errorf("scripted: no seqno")
}
func (c *chain) SendMessage(ctx context.Context, payload []byte) (uint32, error) {
	c.mu.Lock()
	c.sent = append(c.sent, append([]byte(nil), payload...))
	c.calls = append(c.calls, "SendMessage")
	c.mu.Unlock()
	return 0, nil
}
func (c *chain) GetAccountState(ctx context.Context, a ton.AccountID) (tlb.ShardAccount, error) {
	c.mu.Lock()
	c.calls = append(c.calls, "GetAccountState")
	c.mu.Unlock()
	return c.state, nil
}

// ---- the request, in abstract form ----

type reqMsg struct {
	kind string // raw-dag | raw-int | simple | message | deploy
	mode uint8
	// raw paths: the exact cell asked for
	want *cell.Cell
	// sendables: the fields asked for
	amount  uint64
	destWC  int8
	dest    [32]byte
	bounce  bool
	comment string
	body    *cell.Cell
	code    *cell.Cell
	data    *cell.Cell
	extra   map[int32]*big.Int // simple: extra currencies asked for (non-zero amounts)
}

type caseIn struct {
	idx        int
	spec       verSpec
	seed       []byte
	wc         int
	sub        *uint32
	net        *int32
	seqno      uint32
	validUntil uint32
	count      int
	path       string // raw | sendv2 | body
	defaultVU  bool   // body: MessageConfig.ValidUntil left zero (the wallet's message lifetime applies)
	v5ext      int    // body, V5R1: number of extended actions added through the exported CreateSignedMsgBodyCell
	withInit   bool
	active     bool // sendv2: account active (seqno from data) or absent
	lifetime   time.Duration
	v5internal bool
	msgs       []reqMsg
}

var u32Edges = []uint32{0, 1, 1<<31 - 1, 1 << 31, 1<<32 - 1}
var amountEdges = []uint64{0, 1, 255, 256, 65535, 65536, 1<<32 - 1, 1 << 32, 1<<56 - 1, 1 << 56, 1<<63 - 1, 1 << 63, 1<<64 - 1}
var commentLens = []int{0, 1, 122, 123, 124, 1000}

func pickU32(r *mon.Rng) uint32 {
	if r.Chance(2, 3) {
		return mon.Pick(r, u32Edges)
	}
	return uint32(r.Uint64())
}

func edgeClass(v uint32) string {
	for _, e := range u32Edges {
		if v == e {
			return fmt.Sprint(e)
		}
	}
	return "random"
}

func randComment(r *mon.Rng, n int) string {
	var b []byte
	multi := r.Chance(1, 3)
	for len(b) < n {
		left := n - len(b)
		switch {
		case multi && left >= 4 && r.Chance(1, 4):
			b = append(b, "\U0001F600"...)
		case multi && left >= 2 && r.Chance(1, 3):
			b = append(b, "é"...)
		default:
			b = append(b, byte(r.Range(32, 126)))
		}
	}
	return string(b)
}

func randAddr(r *mon.Rng) (int8, [32]byte) {
	var a [32]byte
	copy(a[:], r.Bytes(32))
	return int8(mon.Pick(r, []int{0, -1, 0, 0, 1, 127, -128})), a
}

func genMsg(r *mon.Rng, path string) reqMsg {
	var m reqMsg
	m.mode = uint8(r.Intn(256))
	if r.Chance(1, 4) {
		m.mode = mon.Pick(r, []uint8{0, 1, 2, 3, 64, 128, 130, 255})
	}
	if path == "raw" {
		if r.Chance(1, 3) {
			m.kind = "raw-dag"
			m.want = gen.RandomDag(r, gen.DagOpts{Nodes: r.Range(1, 8), SmallBits: r.Bool()})
			return m
		}
		m.kind = "raw-int"
	} else if x := r.Intn(10); x < 4 {
		m.kind = "simple"
		m.mode = twalletDefaultMode
	} else if x < 9 {
		m.kind = "message"
	} else {
		m.kind = "deploy"
	}
	m.amount = r.Uint64() >> uint(r.Intn(64))
	if r.Chance(1, 2) {
		m.amount = mon.Pick(r, amountEdges)
	}
	m.destWC, m.dest = randAddr(r)
	m.bounce = r.Bool()
	switch m.kind {
	case "simple":
		n := mon.Pick(r, commentLens)
		if r.Chance(1, 3) {
			n = r.Intn(400)
		}
		m.comment = randComment(r, n)
		if r.Chance(1, 4) {
			m.extra = map[int32]*big.Int{}
			for k, n := 0, r.Range(1, 3); k < n; k++ {
				id := mon.Pick(r, []int32{1, 2, 100, -1, -2, 1<<31 - 1, -1 << 31, int32(r.Uint64())})
				amt := new(big.Int).SetBytes(r.Bytes(r.Range(1, 31))) // VarUInteger 32: up to 31 bytes
				if amt.Sign() == 0 {
					amt.SetInt64(1)
				}
				m.extra[id] = amt
			}
		}
	case "deploy":
		m.destWC = int8(mon.Pick(r, []int{0, 0, -1}))
		m.code = gen.RandomDag(r, gen.DagOpts{Nodes: r.Range(1, 4), SmallBits: true})
		m.data = gen.RandomDag(r, gen.DagOpts{Nodes: r.Range(1, 4), SmallBits: true})
		m.dest = [32]byte(rwallet.DeployAddress(m.code, m.data))
		if r.Chance(2, 3) {
			m.body = gen.RandomDag(r, gen.DagOpts{Nodes: r.Range(1, 6), SmallBits: r.Bool()})
		}
	default:
		if r.Chance(2, 3) {
			m.body = gen.RandomDag(r, gen.DagOpts{Nodes: r.Range(1, 6), SmallBits: r.Bool()})
		}
		if r.Chance(1, 4) {
			m.code = gen.RandomDag(r, gen.DagOpts{Nodes: r.Range(1, 4), SmallBits: true})
			m.data = gen.RandomDag(r, gen.DagOpts{Nodes: r.Range(1, 4), SmallBits: true})
		}
	}
	return m
}

const twalletDefaultMode = 3 // SimpleTransfer always asks for mode 3 (documented DefaultMessageMode)

func (m *reqMsg) sendable() (twallet.Sendable, error) {
	addr := ton.AccountID{Workchain: int32(m.destWC), Address: m.dest}
	if m.kind == "simple" {
		st := twallet.SimpleTransfer{Amount: tlb.Grams(m.amount), Address: addr, Comment: m.comment, Bounceable: m.bounce}
		if m.extra != nil {
			st.ExtraCurrency = map[int32]tlb.VarUInteger32{}
			for id, amt := range m.extra {
				st.ExtraCurrency[id] = tlb.VarUInteger32(*new(big.Int).Set(amt))
			}
		}
		return st, nil
	}
	if m.kind == "deploy" {
		cd := twallet.ContractDeploy{Workchain: int32(m.destWC), Amount: tlb.Grams(m.amount)}
		code, err := bridge.ToTongoBuilt(m.code)
		if err != nil {
			return nil, err
		}
		data, err := bridge.ToTongoBuilt(m.data)
		if err != nil {
			return nil, err
		}
		cd.Code, cd.Data = code, data
		if m.body != nil {
			b, err := bridge.ToTongoBuilt(m.body)
			if err != nil {
				return nil, err
			}
			cd.Body = b
		}
		// the request names no send mode: the mode the sendable itself reports is the one asked for
		_, mode, err := cd.ToInternal()
		if err != nil {
			return nil, err
		}
		m.mode = mode
		return cd, nil
	}
	out := twallet.Message{Amount: tlb.Grams(m.amount), Address: addr, Bounce: m.bounce, Mode: m.mode}
	var err error
	if m.body != nil {
		if out.Body, err = bridge.ToTongoBuilt(m.body); err != nil {
			return nil, err
		}
	}
	if m.code != nil {
		if out.Code, err = bridge.ToTongoBuilt(m.code); err != nil {
			return nil, err
		}
		if out.Data, err = bridge.ToTongoBuilt(m.data); err != nil {
			return nil, err
		}
	}
	return out, nil
}

// raw turns the request into a RawMessage. "raw-int" messages are encoded by
// tongo's own Message sendable (the cell asked for is then whatever that
// produced; its content is checked through the reference decoder too).
func (m *reqMsg) raw() (twallet.RawMessage, error) {
	if m.kind == "raw-dag" {
		c, err := bridge.ToTongoBuilt(m.want)
		return twallet.RawMessage{Message: c, Mode: m.mode}, err
	}
	s, err := m.sendable()
	if err != nil {
		return twallet.RawMessage{}, err
	}
	im, _, err := s.ToInternal()
	if err != nil {
		return twallet.RawMessage{}, err
	}
	c := tboc.NewCell()
	if err := tlb.Marshal(c, im); err != nil {
		return twallet.RawMessage{}, err
	}
	m.want = bridge.FromTongo(c)
	return twallet.RawMessage{Message: c, Mode: m.mode}, nil
}

// matches compares a decoded inner message cell with the request.
func (m *reqMsg) matches(got *cell.Cell) string {
	if m.want != nil && got.Hash() != m.want.Hash() {
		return "cell differs from the cell passed in"
	}
	if m.kind == "raw-dag" {
		return ""
	}
	im, err := rwallet.ParseInt(got)
	if err != nil {
		return "reference decoder: " + err.Error()
	}
	if !im.SrcNone || !im.IhrDisabled || im.Bounced || im.IhrFee.Sign() != 0 || im.FwdFee.Sign() != 0 || im.CreatedLt != 0 || im.CreatedAt != 0 {
		return "unrequested header fields set"
	}
	extras, err := rwallet.ExtraCurrencies(im.Extra)
	if err != nil {
		return "extra currencies: " + err.Error()
	}
	if len(extras) != len(m.extra) {
		if len(m.extra) == 0 {
			return "unrequested extra currencies"
		}
		return "extra currencies: number of entries"
	}
	for _, e := range extras {
		want := m.extra[int32(e.ID)]
		if want == nil || want.Cmp(e.Amount) != 0 {
			return "extra currencies: id or amount"
		}
	}
	if m.kind != "deploy" && im.Bounce != m.bounce { // a deployment request does not name a bounce flag
		return "bounce flag"
	}
	if im.DestWC != m.destWC || im.Dest != m.dest {
		return "destination"
	}
	if im.Amount.Cmp(new(big.Int).SetUint64(m.amount)) != 0 {
		if m.amount >= 1<<63 {
			return "amount>=2^63"
		}
		return "amount"
	}
	if m.kind == "simple" {
		if m.comment == "" {
			if len(im.Body.Bits) != 0 || len(im.Body.Refs) != 0 {
				return "body not empty"
			}
			return ""
		}
		if len(im.Body.Bits) < 32 || rbits.ToUint(im.Body.Bits[:32]) != 0 {
			return "comment tag"
		}
		txt, err := rwallet.Snake(im.Body, 32)
		if err != nil {
			return "comment: " + err.Error()
		}
		if string(txt) != m.comment {
			return "comment text"
		}
		if im.Init != nil {
			return "unrequested state-init"
		}
		return ""
	}
	if m.body == nil {
		if len(im.Body.Bits) != 0 || len(im.Body.Refs) != 0 {
			return "body not empty"
		}
	} else if im.Body.Hash() != m.body.Hash() {
		return "body"
	}
	if m.code != nil {
		if im.Init == nil || im.Init.Code == nil || im.Init.Data == nil || im.Init.Code.Hash() != m.code.Hash() || im.Init.Data.Hash() != m.data.Hash() ||
			im.Init.Library != nil || im.Init.SplitDepth != nil || im.Init.Special != nil {
			return "state-init"
		}
	} else if im.Init != nil {
		return "unrequested state-init"
	}
	return ""
}

// refExtIn encodes an external message to (wc, addr) with the body in a
// reference and no init (reference encoder, block.tlb).
func refExtIn(wc int8, addr [32]byte, body *cell.Cell) *cell.Cell {
	var b []bool
	b = append(b, true, false, false, false) // ext_in_msg_info$10, src addr_none$00
	b = append(b, true, false, false)        // addr_std$10, no anycast
	b = append(b, rbits.IntBits(int64(wc), 8)...)
	b = append(b, rbits.BytesBits(addr[:])...)
	b = append(b, false, false, false, false) // import_fee = 0
	b = append(b, false, true)                // no init, body in reference
	return cell.New(b, false, body)
}

func tongoParse(payload []byte) (*tboc.Cell, error) {
	cs, err := tboc.DeserializeBoc(payload)
	if err != nil {
		return nil, err
	}
	if len(cs) != 1 {
		return nil, fmt.Errorf("%d roots", len(cs))
	}
	return cs[0], nil
}

// tongoVerify asks tongo whether the message is signed by pub. V5Beta is not
// covered by wallet.VerifySignature ("not supported"); there the exported
// MessageV5VerifySignature is the library's verifier.
func tongoVerify(s verSpec, payload []byte, pub ed25519.PublicKey) (err error, p *mon.Panic) {
	p = mon.Guard(func() {
		var c *tboc.Cell
		if c, err = tongoParse(payload); err != nil {
			return
		}
		if s.t == twallet.V5Beta {
			var m tlb.Message
			if err = tlb.Unmarshal(c, &m); err != nil {
				return
			}
			err = twallet.MessageV5VerifySignature(tboc.Cell(m.Body.Value), pub)
			return
		}
		err = twallet.VerifySignature(s.t, c, pub)
	})
	return
}

func flipBit(c *cell.Cell, i int) *cell.Cell {
	b := append([]bool(nil), c.Bits...)
	b[i] = !b[i]
	return cell.New(b, c.Exotic, c.Refs...)
}

// flipDeep returns a copy of root in which one bit of the cell reached by
// following path is flipped (cells on the path are copied, the rest shared).
func flipDeep(root *cell.Cell, path []int, bit int) *cell.Cell {
	if len(path) == 0 {
		return flipBit(root, bit)
	}
	refs := append([]*cell.Cell(nil), root.Refs...)
	refs[path[0]] = flipDeep(refs[path[0]], path[1:], bit)
	return cell.New(root.Bits, root.Exotic, refs...)
}

// deepTargets enumerates (path) of every cell below root that has data bits.
func deepTargets(root *cell.Cell, limit int) [][]int {
	var out [][]int
	var walk func(c *cell.Cell, path []int)
	walk = func(c *cell.Cell, path []int) {
		for i, ch := range c.Refs {
			if len(out) >= limit {
				return
			}
			p := append(append([]int(nil), path...), i)
			if len(ch.Bits) > 0 && !ch.Exotic {
				out = append(out, p)
			}
			walk(ch, p)
		}
	}
	walk(root, nil)
	return out
}

func at(root *cell.Cell, path []int) *cell.Cell {
	for _, i := range path {
		root = root.Refs[i]
	}
	return root
}

func witness(c *caseIn) map[string]any {
	w := map[string]any{"case": c.idx, "version": c.spec.name, "path": c.path, "seed": mon.Hex(c.seed), "workchain": c.wc,
		"seqno": c.seqno, "valid_until": c.validUntil, "count": c.count}
	if c.sub != nil {
		w["subwallet"] = *c.sub
	}
	if c.net != nil {
		w["network"] = *c.net
	}
	return w
}

func countClass(s verSpec, n int) string {
	switch n {
	case 0, 1, 2:
		return fmt.Sprint(n)
	case s.max - 1:
		return "max-1"
	case s.max:
		return "max"
	case s.max + 1:
		return "max+1"
	}
	if n > s.max+1 {
		return "far-above-max"
	}
	return "mid"
}

// buildV5R1Extended builds a V5R1 body through the exported
// NewWalletV5R1(...).CreateSignedMsgBodyCell with c.v5ext extended actions in
// addition to the outgoing messages.
func buildV5R1Extended(c *caseIn, priv ed25519.PrivateKey, pub ed25519.PublicKey, cfg twallet.MessageConfig, snd []twallet.Sendable) (*tboc.Cell, error) {
	wc := c.wc
	w5 := twallet.NewWalletV5R1(pub, twallet.Options{Workchain: &wc, NetworkGlobalID: c.net})
	raws := make([]twallet.RawMessage, 0, len(snd))
	for _, sd := range snd {
		im, mode, err := sd.ToInternal()
		if err != nil {
			return nil, err
		}
		mc := tboc.NewCell()
		if err := tlb.Marshal(mc, im); err != nil {
			return nil, err
		}
		raws = append(raws, twallet.RawMessage{Message: mc, Mode: mode})
	}
	rng := R.Rng("v5ext", c.idx)
	var ext twallet.W5ExtendedActions
	for k := 0; k < c.v5ext; k++ {
		var a twallet.W5ExtendedAction
		wcx, ad := randAddr(rng)
		acc := ton.AccountID{Workchain: int32(wcx), Address: ad}
		addr := acc.ToMsgAddress()
		switch rng.Intn(3) {
		case 0:
			a.SumType = "AddExtension"
			a.AddExtension = &struct{ Addr tlb.MsgAddress }{addr}
		case 1:
			a.SumType = "RemoveExtension"
			a.RemoveExtension = &struct{ Addr tlb.MsgAddress }{addr}
		default:
			a.SumType = "SetSignatureAllowed"
			a.SetSignatureAllowed = &struct{ Allowed bool }{rng.Bool()}
		}
		ext = append(ext, a)
	}
	return w5.CreateSignedMsgBodyCell(priv, raws, &ext, cfg)
}

func runCase(c *caseIn) {
	w := witness(c)
	s := c.spec
	priv := ed25519.NewKeyFromSeed(c.seed)
	pub := priv.Public().(ed25519.PublicKey)
	ch := &chain{}
	opts := []twallet.Option{twallet.WithWorkchain(c.wc), twallet.WithMessageLifetime(c.lifetime)}
	rp := rwallet.Params{Ver: s.r, Workchain: int32(c.wc), SubWallet: c.sub, NetworkID: c.net}
	copy(rp.PubKey[:], pub)
	if c.sub != nil {
		opts = append(opts, twallet.WithSubWalletID(*c.sub))
	}
	if c.net != nil {
		opts = append(opts, twallet.WithNetworkGlobalID(*c.net))
	}
	var wal twallet.Wallet
	var err error
	if p := mon.Guard(func() { wal, err = twallet.New(priv, s.t, ch, opts...) }); p != nil || err != nil {
		w["err"] = fmt.Sprint(err, p)
		R.Violation("error@wallet.New/"+s.name, w)
		return
	}
	addr := wal.GetAddress()

	// the account the scripted chain reports (only SendV2 asks)
	if c.path == "sendv2" && c.active {
		data, derr := rwallet.DataCell(rp, c.seqno)
		if derr != nil {
			R.HarnessError("reference data cell: %v", derr)
			return
		}
		td, derr := bridge.ToTongoBuilt(data)
		if derr != nil {
			R.HarnessError("bridge: %v", derr)
			return
		}
		code := twallet.GetCodeByVer(s.t)
		ch.state.Account.SumType = "Account"
		ch.state.Account.Account.Addr = addr.ToMsgAddress()
		ch.state.Account.Account.Storage.State.SumType = "AccountActive"
		si := &ch.state.Account.Account.Storage.State.AccountActive.StateInit
		si.Code.Exists, si.Code.Value.Value = true, *code
		si.Data.Exists, si.Data.Value.Value = true, *td
	} else {
		ch.state.Account.SumType = "AccountNone"
	}

	// build
	var payload []byte
	var bodyOnly *tboc.Cell
	var t0, t1 time.Time
	var p *mon.Panic
	switch c.path {
	case "raw":
		raws := make([]twallet.RawMessage, len(c.msgs))
		for i := range c.msgs {
			if raws[i], err = c.msgs[i].raw(); err != nil {
				R.HarnessError("building raw message: %v", err)
				return
			}
		}
		var init *tlb.StateInit
		if c.withInit {
			if init, err = wal.StateInit(); err != nil {
				w["err"] = err.Error()
				R.Violation("error@Wallet.StateInit/"+s.name, w)
				return
			}
		}
		p = mon.Guard(func() {
			_, err = wal.RawSendV2(context.Background(), c.seqno, time.Unix(int64(c.validUntil), 0), raws, init, 0)
		})
	case "sendv2", "body":
		snd := make([]twallet.Sendable, len(c.msgs))
		for i := range c.msgs {
			if snd[i], err = c.msgs[i].sendable(); err != nil {
				R.HarnessError("building sendable: %v", err)
				return
			}
		}
		if c.path == "sendv2" {
			t0 = time.Now()
			p = mon.Guard(func() { _, err = wal.SendV2(context.Background(), 0, snd...) })
			t1 = time.Now()
		} else {
			cfg := twallet.MessageConfig{Seqno: c.seqno, ValidUntil: time.Unix(int64(c.validUntil), 0), V5MsgType: twallet.V5MsgTypeSignedExternal}
			if c.defaultVU {
				cfg.ValidUntil = time.Time{} // not set: the wallet's message lifetime applies
				R.Seen("paths", s.name+"/body/default-expiry")
			}
			if c.v5internal {
				cfg.V5MsgType = twallet.V5MsgTypeSignedInternal
			}
			t0 = time.Now()
			if c.v5ext > 0 && s.t == twallet.V5R1 && !c.defaultVU {
				// the exported V5R1 builder with extended actions: the signed part then spans more than one
				// reference of the body root (first extended action inline, the following ones chained)
				R.Seen("paths", s.name+"/body/extended-actions")
				p = mon.Guard(func() { bodyOnly, err = buildV5R1Extended(c, priv, pub, cfg, snd) })
			} else {
				c.v5ext = 0
				p = mon.Guard(func() { bodyOnly, err = wal.CreateMessageBody(cfg, snd...) })
			}
			t1 = time.Now()
		}
	}
	cls := countClass(s, c.count)
	R.Seen("count_classes", s.name+"/"+cls)
	R.Seen("paths", s.name+"/"+c.path)
	if p != nil {
		w["panic"], w["stack"] = p.Value, mon.Trunc(p.Stack, 1500)
		R.Violation("panic@"+p.Site+"/build/"+c.path+"/"+s.name, w)
		return
	}

	// more than the version allows: refused, nothing reaches the chain
	if c.count > s.max {
		R.Eval(fmt.Sprintf("over-limit/%s/%s", s.name, c.path))
		if c.path == "body" {
			// CreateMessageBody is not a send; what it does above the limit is recorded only
			if err == nil {
				R.Seen("observed", "CreateMessageBody builds a body above the send limit for "+s.name)
			}
			return
		}
		if err == nil || len(ch.sent) != 0 {
			w["err"], w["captured"] = fmt.Sprint(err), len(ch.sent)
			R.Violation("over-limit-accepted@"+c.path+"/"+s.name, w)
			return
		}
		R.Count("refused_over_limit", 1)
		return
	}
	if err != nil {
		w["err"] = err.Error()
		R.Violation("error@build/"+c.path+"/"+s.name+"/count="+cls, w)
		return
	}

	// obtain the external message as bytes
	wrapped := false
	if c.path == "body" {
		wrapped = true
		var e2 error
		p = mon.Guard(func() {
			var m tlb.Message
			if m, e2 = ton.CreateExternalMessage(addr, bodyOnly, nil, tlb.VarUInteger16{}); e2 != nil {
				return
			}
			mc := tboc.NewCell()
			if e2 = tlb.Marshal(mc, m); e2 != nil {
				return
			}
			payload, e2 = mc.ToBoc()
		})
		if p != nil || e2 != nil {
			w["err"] = fmt.Sprint(e2, p)
			R.Violation("error@wrap-body/"+s.name, w)
			return
		}
	} else {
		if len(ch.sent) != 1 {
			w["captured"] = len(ch.sent)
			R.Violation("payload-count@"+c.path, w)
			return
		}
		payload = ch.sent[0]
	}
	w["payload"] = mon.HexTrunc(payload, 3000)

	roots, _, _, rerr := rboc.Read(payload)
	if rerr != nil || len(roots) != 1 {
		w["err"] = fmt.Sprint(rerr)
		R.Violation("invalid-boc@payload/"+s.name, w)
		return
	}
	ext, rerr := rwallet.ParseExtIn(roots[0])
	if rerr != nil {
		w["err"] = rerr.Error()
		R.Violation("not-an-external-message@payload/"+s.name, w)
		return
	}
	body := ext.Body
	if body.Err() != nil {
		R.HarnessError("reference body cell invalid: %v", body.Err())
		return
	}
	bh := body.Hash()
	R.Eval("msg/" + string(bh[:10]))
	R.Count("messages_built", 1)
	if c.idx%97 == 0 {
		R.Sample(map[string]any{"version": s.name, "path": c.path, "messages": c.count, "seqno": c.seqno, "valid_until": c.validUntil,
			"body_root_bits": len(body.Bits), "body_hash": mon.Hex(bh[:]), "payload_bytes": len(payload)})
	}
	if !wrapped && c.path == "raw" && (ext.Init != nil) != c.withInit {
		w["init_present"] = ext.Init != nil
		R.Violation("init-mismatch@RawSendV2/"+s.name, w)
	}

	// 1. signature under the wallet's key: reference verifier and tongo agree
	refOK := rwallet.Verify(s.r, body, pub)
	terr, tp := tongoVerify(s, payload, pub)
	if tp != nil {
		w["panic"] = tp.Value
		R.Violation("panic@"+tp.Site+"/VerifySignature/"+s.name, w)
		return
	}
	if !refOK {
		w["tongo_verify"] = fmt.Sprint(terr)
		R.Violation("bad-signature@reference-verifier/"+c.path+"/"+s.name, w)
		return
	}
	if terr != nil {
		w["err"] = terr.Error()
		R.Violation("verifiers-disagree@own-key/"+s.name, w)
		return
	}
	if s.t == twallet.V5Beta {
		R.Seen("observed", "wallet.VerifySignature has no V5Beta case; MessageV5VerifySignature used for it")
	}

	// 2. eight other keys
	for k := 0; k < 8; k++ {
		var other ed25519.PublicKey
		if k == 0 {
			other = append(ed25519.PublicKey(nil), pub...)
			other[R.Rng("fk", c.idx).Intn(32)] ^= 1 << uint(k)
		} else {
			other = ed25519.NewKeyFromSeed(R.Rng("foreign", c.idx*8+k).Bytes(32)).Public().(ed25519.PublicKey)
		}
		ro := rwallet.Verify(s.r, body, other)
		te, tp := tongoVerify(s, payload, other)
		R.Count("foreign_key_checks", 1)
		if ro || te == nil || tp != nil {
			w["other_key"], w["reference_accepts"], w["tongo"] = mon.Hex(other), ro, fmt.Sprint(te, tp)
			R.Violation("verifies-under-foreign-key/"+s.name, w)
			return
		}
	}

	// 3. every bit of the body root flipped (reference verifier); a sample of them through tongo too
	rng := R.Rng("flip", c.idx)
	nb := len(body.Bits)
	tongoSample := map[int]bool{0: true, nb - 1: true, 511: true, 512: true, nb - 512: true, nb - 513: true}
	for k := 0; k < 6; k++ {
		tongoSample[rng.Intn(nb)] = true
	}
	for i := 0; i < nb; i++ {
		fb := flipBit(body, i)
		if rwallet.Verify(s.r, fb, pub) {
			w["flipped_bit"] = i
			R.Violation("verifies-after-bit-flip@root/reference/"+s.name, w)
			return
		}
		if tongoSample[i] {
			fp, werr := rboc.Write([]*cell.Cell{refExtIn(ext.DestWC, ext.Dest, fb)}, rboc.Options{})
			if werr != nil {
				R.HarnessError("reference writer: %v", werr)
				return
			}
			te, tp := tongoVerify(s, fp, pub)
			R.Count("bitflips_tongo", 1)
			if te == nil && tp == nil {
				w["flipped_bit"] = i
				R.Violation("verifies-after-bit-flip@root/tongo/"+s.name, w)
				return
			}
			if tp != nil {
				w["flipped_bit"], w["panic"] = i, tp.Value
				R.Violation("panic@"+tp.Site+"/VerifySignature(bit-flipped)/"+s.name, w)
				return
			}
		}
	}
	R.EvalN(int64(nb), "flip-root/"+s.name)
	R.Count("bitflips_reference", int64(nb))
	targets := deepTargets(body, 4000)
	nDeep := 64
	if len(targets) == 0 {
		nDeep = 0
	}
	for k := 0; k < nDeep; k++ {
		path := mon.Pick(rng, targets)
		tc := at(body, path)
		bit := rng.Intn(len(tc.Bits))
		fb := flipDeep(body, path, bit)
		if fb.Err() != nil {
			continue
		}
		if rwallet.Verify(s.r, fb, pub) {
			w["flipped_path"], w["flipped_bit"] = path, bit
			R.Violation("verifies-after-bit-flip@referenced-cell/reference/"+s.name, w)
			return
		}
		if k < 4 {
			fp, werr := rboc.Write([]*cell.Cell{refExtIn(ext.DestWC, ext.Dest, fb)}, rboc.Options{})
			if werr != nil {
				R.HarnessError("reference writer: %v", werr)
				return
			}
			te, tp := tongoVerify(s, fp, pub)
			R.Count("bitflips_tongo", 1)
			if te == nil && tp == nil {
				w["flipped_path"], w["flipped_bit"] = path, bit
				R.Violation("verifies-after-bit-flip@referenced-cell/tongo/"+s.name, w)
				return
			}
		}
	}
	R.EvalN(int64(nDeep), "flip-deep/"+s.name)
	R.Count("bitflips_reference", int64(nDeep))

	// 4. decode: reference decoder, tongo's decoders, and the request
	req, derr := rwallet.Decode(s.r, body)
	if derr != nil {
		w["err"] = derr.Error()
		R.Violation("undecodable-body@reference/"+s.name+"/count="+cls, w)
		return
	}
	wantVU := c.validUntil
	wantSeq := c.seqno
	if c.path == "sendv2" {
		if !c.active || !rwallet.HasSeqno(s.r) {
			wantSeq = 0
		}
	}
	type decoded struct {
		id        string
		seqno, vu uint32
		hasSeq    bool
		query     uint64
		modes     []uint8
		msgs      []*cell.Cell
		magic     uint32
		extra     string
	}
	var td decoded
	var raws2 []twallet.RawMessage
	var e1, e2 error
	p = mon.Guard(func() {
		c1, err := tongoParse(payload)
		if err != nil {
			e1 = err
			return
		}
		var list []twallet.RawMessage
		td.hasSeq = true
		switch s.t {
		case twallet.V3R1, twallet.V3R2:
			var m *twallet.MessageV3
			if m, e1 = twallet.DecodeMessageV3(c1); e1 == nil {
				td.id, td.seqno, td.vu, list = fmt.Sprint(m.SubWalletId), m.Seqno, m.ValidUntil, m.RawMessages
			}
		case twallet.V4R1, twallet.V4R2:
			var m *twallet.MessageV4
			if m, e1 = twallet.DecodeMessageV4(c1); e1 == nil {
				td.id, td.seqno, td.vu, list = fmt.Sprint(m.SubWalletId), m.Seqno, m.ValidUntil, m.RawMessages
				td.extra = fmt.Sprint("op=", m.Op)
			}
		case twallet.V5Beta:
			var m *twallet.MessageV5Beta
			if m, e1 = twallet.DecodeMessageV5Beta(c1); e1 == nil {
				switch m.SumType {
				case "SignedExternal":
					td.magic = rwallet.MagicSignedExternal
					x := m.SignedExternal
					td.id, td.seqno, td.vu = mon.Hex(x.WalletId[:]), x.Seqno, x.ValidUntil
					td.extra = fmt.Sprint("op=", x.Op)
				case "SignedInternal":
					td.magic = rwallet.MagicSignedInternal
					x := m.SignedInternal
					td.id, td.seqno, td.vu = mon.Hex(x.WalletId[:]), x.Seqno, x.ValidUntil
					td.extra = fmt.Sprint("op=", x.Op)
				default:
					e1 = fmt.Errorf("sum type %q", m.SumType)
				}
				list = m.RawMessages()
			}
		case twallet.V5R1:
			var m *twallet.MessageV5
			if m, e1 = twallet.DecodeMessageV5(c1); e1 == nil {
				switch {
				case m.SumType == "SignedExternal" && m.SignedExternal != nil:
					td.magic = rwallet.MagicSignedExternal
					x := m.SignedExternal
					td.id, td.seqno, td.vu = fmt.Sprint(x.WalletId), x.Seqno, x.ValidUntil
					td.extra = fmt.Sprint("ext=", x.ExtendedActions != nil)
				case m.SumType == "SignedInternal" && m.SignedInternal != nil:
					td.magic = rwallet.MagicSignedInternal
					x := m.SignedInternal
					td.id, td.seqno, td.vu = fmt.Sprint(x.WalletId), x.Seqno, x.ValidUntil
					td.extra = fmt.Sprint("ext=", x.ExtendedActions != nil)
				default:
					e1 = fmt.Errorf("sum type %q", m.SumType)
				}
				list = m.RawMessages()
			}
		case twallet.HighLoadV2R2:
			var m *twallet.HighloadV2Message
			if m, e1 = twallet.DecodeHighloadV2Message(c1); e1 == nil {
				td.id, td.query, list = fmt.Sprint(m.SubWalletId), m.BoundedQueryID, m.RawMessages
				td.hasSeq = false
			}
		}
		for _, rm := range list {
			td.modes = append(td.modes, rm.Mode)
			td.msgs = append(td.msgs, bridge.FromTongo(rm.Message))
		}
		c2, err := tongoParse(payload)
		if err != nil {
			e2 = err
			return
		}
		raws2, e2 = twallet.ExtractRawMessages(s.t, c2)
	})
	if p != nil {
		w["panic"], w["stack"] = p.Value, mon.Trunc(p.Stack, 1200)
		R.Violation("panic@"+p.Site+"/Decode/"+s.name, w)
		return
	}
	if e1 != nil || e2 != nil {
		w["err"] = fmt.Sprint(e1, " / ", e2)
		R.Violation("error@Decode/"+s.name+"/count="+cls, w)
		return
	}

	// expected ids
	var wantID string
	switch s.r {
	case rwallet.V5Beta:
		var b []bool
		b = append(b, rbits.IntBits(int64(rp.NetworkOf()), 32)...)
		b = append(b, rbits.IntBits(int64(int8(c.wc)), 8)...)
		b = append(b, rbits.UintBits(0, 8)...)
		b = append(b, rbits.UintBits(uint64(rp.SubWalletOf()), 32)...)
		wantID = mon.Hex(rbits.ToBytes(b))
		refID := append(append(append(rbits.IntBits(int64(req.BetaNet), 32), rbits.IntBits(int64(req.BetaWC), 8)...), rbits.UintBits(uint64(req.BetaVer), 8)...), rbits.UintBits(uint64(req.SubWallet), 32)...)
		if mon.Hex(rbits.ToBytes(refID)) != wantID {
			w["got"], w["want"] = mon.Hex(rbits.ToBytes(refID)), wantID
			R.Violation("wallet-id-mismatch@reference-decode/"+s.name, w)
			return
		}
	case rwallet.V5R1:
		wantID = fmt.Sprint(rwallet.V5R1WalletID(int32(c.wc), 0, rp.NetworkOf()))
		if fmt.Sprint(req.WalletID) != wantID {
			w["got"], w["want"] = req.WalletID, wantID
			R.Violation("wallet-id-mismatch@reference-decode/"+s.name, w)
			return
		}
	default:
		wantID = fmt.Sprint(rp.SubWalletOf())
		if fmt.Sprint(req.SubWallet) != wantID {
			w["got"], w["want"] = req.SubWallet, wantID
			R.Violation("subwallet-mismatch@reference-decode/"+s.name, w)
			return
		}
	}
	if td.id != wantID {
		w["got"], w["want"] = td.id, wantID
		R.Violation("wallet-id-mismatch@tongo-decode/"+s.name, w)
		return
	}
	vuOK := func(v uint32) bool {
		if c.path != "sendv2" && !c.defaultVU {
			return v == wantVU
		}
		lo, hi := t0.Add(c.lifetime).Unix()-1, t1.Add(c.lifetime).Unix()+1
		return int64(v) >= lo && int64(v) <= hi
	}
	if s.r == rwallet.HighloadV2R2 {
		if !vuOK(uint32(req.QueryID>>32)) || td.query != req.QueryID {
			w["query_id"], w["tongo_query_id"] = req.QueryID, td.query
			R.Violation("expiry-mismatch@highload-query-id", w)
			return
		}
	} else {
		if req.Seqno != wantSeq || td.seqno != wantSeq {
			w["ref_seqno"], w["tongo_seqno"], w["want"] = req.Seqno, td.seqno, wantSeq
			R.Violation("seqno-mismatch/"+c.path+"/"+s.name+"/"+edgeClass(wantSeq), w)
			return
		}
		if !vuOK(req.ValidUntil) || td.vu != req.ValidUntil {
			w["ref_valid_until"], w["tongo_valid_until"] = req.ValidUntil, td.vu
			R.Violation("expiry-mismatch/"+c.path+"/"+s.name, w)
			return
		}
	}
	if s.r == rwallet.V5Beta || s.r == rwallet.V5R1 {
		wantMagic := uint32(rwallet.MagicSignedExternal)
		if c.v5internal && c.path == "body" {
			wantMagic = rwallet.MagicSignedInternal
		}
		if req.Magic != wantMagic || td.magic != wantMagic {
			w["ref_magic"], w["tongo_magic"] = req.Magic, td.magic
			R.Violation("magic-mismatch/"+s.name, w)
			return
		}
		if req.HasExtended != (c.v5ext > 0) || req.Op != 0 {
			w["has_extended_actions"], w["extended_actions_requested"] = req.HasExtended, c.v5ext
			R.Violation("unrequested-op@v5/"+s.name, w)
			return
		}
		if s.r == rwallet.V5R1 && td.extra != fmt.Sprint("ext=", c.v5ext > 0) {
			w["tongo_decode"] = td.extra
			R.Violation("decoders-disagree@extended-actions/"+s.name, w)
			return
		}
		if c.v5ext > 0 {
			R.Count("v5r1_bodies_with_extended_actions", 1)
			R.Seen("body_root_refs", fmt.Sprint(len(body.Refs)))
		}
	}
	if (s.r == rwallet.V4R1 || s.r == rwallet.V4R2) && (req.Op != 0 || td.extra != "op=0") {
		w["op"] = req.Op
		R.Violation("unrequested-op@v4", w)
		return
	}

	// messages: count, modes, order, content — reference decode, tongo decode, ExtractRawMessages
	if len(req.Msgs) != c.count || len(td.msgs) != c.count || len(raws2) != c.count {
		w["reference_count"], w["tongo_count"], w["extract_count"] = len(req.Msgs), len(td.msgs), len(raws2)
		R.Violation("message-count-mismatch/"+s.name+"/count="+cls, w)
		return
	}
	for i := range c.msgs {
		m := &c.msgs[i]
		rh := req.Msgs[i].Msg.Hash()
		var xh cell.Hash
		if p := mon.Guard(func() { xh = bridge.FromTongo(raws2[i].Message).Hash() }); p != nil {
			R.Violation("panic@"+p.Site+"/ExtractRawMessages-cell", w)
			return
		}
		if td.msgs[i].Hash() != rh || xh != rh || td.modes[i] != req.Msgs[i].Mode || raws2[i].Mode != req.Msgs[i].Mode {
			w["index"] = i
			R.Violation("decoders-disagree@message/"+s.name, w)
			return
		}
		if req.Msgs[i].Mode != m.mode {
			w["index"], w["got_mode"], w["want_mode"] = i, req.Msgs[i].Mode, m.mode
			R.Violation("mode-mismatch/"+s.name, w)
			return
		}
		if why := m.matches(req.Msgs[i].Msg); why != "" {
			w["index"], w["why"], w["kind"] = i, why, m.kind
			if m.kind == "simple" {
				w["comment_len"] = len(m.comment)
			}
			w["amount"] = m.amount
			R.Violation("message-mismatch@"+m.kind+"/"+why, w)
			return
		}
		R.Count("inner_messages_compared", 1)
		if len(m.extra) > 0 {
			R.Count("inner_messages_with_extra_currencies", 1)
		}
		R.Seen("message_kinds", m.kind)
	}

	// 5. the same Wallet value sends again. Every message must carry what was asked for *that* send: for
	// Send/SendV2 the seqno of the account state the chain hands out (it has not moved), for RawSendV2 the
	// seqno passed in - whatever this Wallet sent before.
	if (c.path == "sendv2" || c.path == "raw") && c.count <= 16 {
		repeatSends(c, &wal, ch, pub, wantSeq)
	}
}

// repeatSends sends twice more through the wallet that has already sent once
// and checks every captured message against its own request.
func repeatSends(c *caseIn, wal *twallet.Wallet, ch *chain, pub ed25519.PublicKey, stateSeq uint32) {
	s := c.spec
	for rep := 1; rep <= 2; rep++ {
		w := witness(c)
		w["send_number_on_this_wallet"] = rep + 1
		wantSeq := stateSeq
		var err error
		var t0, t1 time.Time
		var p *mon.Panic
		before := len(ch.sent)
		if c.path == "sendv2" {
			snd := make([]twallet.Sendable, len(c.msgs))
			for i := range c.msgs {
				if snd[i], err = c.msgs[i].sendable(); err != nil {
					R.HarnessError("building sendable: %v", err)
					return
				}
			}
			t0 = time.Now()
			p = mon.Guard(func() { _, err = wal.SendV2(context.Background(), 0, snd...) })
			t1 = time.Now()
		} else {
			// an explicit seqno that is not above the one used before: the same, then a lower one
			wantSeq = c.seqno - uint32(rep-1)
			raws := make([]twallet.RawMessage, len(c.msgs))
			for i := range c.msgs {
				if raws[i], err = c.msgs[i].raw(); err != nil {
					R.HarnessError("building raw message: %v", err)
					return
				}
			}
			p = mon.Guard(func() {
				_, err = wal.RawSendV2(context.Background(), wantSeq, time.Unix(int64(c.validUntil), 0), raws, nil, 0)
			})
		}
		w["want_seqno"] = wantSeq
		if p != nil {
			w["panic"], w["stack"] = p.Value, mon.Trunc(p.Stack, 1500)
			R.Violation("panic@"+p.Site+"/build/"+c.path+"/"+s.name+"/repeated-send", w)
			return
		}
		if err != nil || len(ch.sent) != before+1 {
			w["err"], w["captured"] = fmt.Sprint(err), len(ch.sent)-before
			R.Violation("error@build/"+c.path+"/"+s.name+"/repeated-send", w)
			return
		}
		payload := ch.sent[len(ch.sent)-1]
		w["payload"] = mon.HexTrunc(payload, 3000)
		roots, _, _, rerr := rboc.Read(payload)
		if rerr != nil || len(roots) != 1 {
			w["err"] = fmt.Sprint(rerr)
			R.Violation("invalid-boc@payload/"+s.name+"/repeated-send", w)
			return
		}
		ext, rerr := rwallet.ParseExtIn(roots[0])
		if rerr != nil {
			w["err"] = rerr.Error()
			R.Violation("not-an-external-message@payload/"+s.name+"/repeated-send", w)
			return
		}
		if !rwallet.Verify(s.r, ext.Body, pub) {
			R.Violation("bad-signature@reference-verifier/"+c.path+"/"+s.name+"/repeated-send", w)
			return
		}
		req, derr := rwallet.Decode(s.r, ext.Body)
		if derr != nil {
			w["err"] = derr.Error()
			R.Violation("undecodable-body@reference/"+s.name+"/repeated-send", w)
			return
		}
		R.Eval(fmt.Sprintf("repeat/%s/%s/%d", s.name, c.path, rep))
		R.Count("repeated_sends_compared", 1)
		vu := req.ValidUntil
		if s.r == rwallet.HighloadV2R2 {
			vu = uint32(req.QueryID >> 32)
		} else if req.Seqno != wantSeq {
			w["got_seqno"] = req.Seqno
			R.Violation("seqno-mismatch/"+c.path+"/"+s.name+"/repeated-send", w)
			return
		}
		if c.path == "sendv2" {
			lo, hi := t0.Add(c.lifetime).Unix()-1, t1.Add(c.lifetime).Unix()+1
			if int64(vu) < lo || int64(vu) > hi {
				w["got_valid_until"] = vu
				R.Violation("expiry-mismatch/"+c.path+"/"+s.name+"/repeated-send", w)
				return
			}
		} else if vu != c.validUntil {
			w["got_valid_until"] = vu
			R.Violation("expiry-mismatch/"+c.path+"/"+s.name+"/repeated-send", w)
			return
		}
		if len(req.Msgs) != c.count {
			w["reference_count"] = len(req.Msgs)
			R.Violation("message-count-mismatch/"+s.name+"/repeated-send", w)
			return
		}
		for i := range c.msgs {
			m := &c.msgs[i]
			if req.Msgs[i].Mode != m.mode {
				w["index"], w["got_mode"], w["want_mode"] = i, req.Msgs[i].Mode, m.mode
				R.Violation("mode-mismatch/"+s.name+"/repeated-send", w)
				return
			}
			if why := m.matches(req.Msgs[i].Msg); why != "" {
				w["index"], w["why"], w["kind"] = i, why, m.kind
				R.Violation("message-mismatch@"+m.kind+"/"+why+"/repeated-send", w)
				return
			}
		}
	}
}

func main() {
	tier := "quick"
	if len(os.Args) > 1 {
		tier = os.Args[1]
	}
	R = mon.Start("C14", tier)
	R.Rule = "each case builds one signed message through RawSendV2 / SendV2 / CreateMessageBody (also with the expiry left to the wallet's message lifetime; V5R1 also through the exported CreateSignedMsgBodyCell with 2-3 extended actions, i.e. a signed part spanning two root references) against a scripted chain; requested messages: raw cells, Message, SimpleTransfer (comments, extra currencies), ContractDeploy (destination = hash of the StateInit of code and data); counts 0..max, max+1 and far above (256, 257, 300, 512); every wallet that has sent through SendV2 / RawSendV2 sends twice more (same account state; same and lower explicit seqno) and each message is compared with its own request (reference verifier + decoder); oracle = reference verifier + tongo's verifier under the wallet key, 8 foreign keys, every bit of the body root flipped and 64 bits in referenced cells (reference verifier; a sample through tongo), reference decoder + tongo decoders + ExtractRawMessages against the request (ids, seqno, expiry, modes, order, content via the reference internal-message decoder), count limit; non-trivial = a message that was built and verified; distinct = distinct body hashes (plus per-version classes for bit flips and over-limit refusals)"
	R.Assume("reference wallet model harness/ref/wallet: signature placement and body layouts written from the contract sources; validated at start-up against captured network messages (2 signatures, 8 bodies, 10 inner messages) and real address vectors")
	R.Assume("on-chain acceptance is not decided (no TVM); v5 action lists are compared in list order (tongo puts the first requested message in the outermost OutList cell; TVM performs the innermost first)")
	R.Assume("wallet.VerifySignature has no V5Beta branch; for V5Beta the exported MessageV5VerifySignature is taken as tongo's verifier")
	sc, err := rwallet.SelfCheck()
	if err != nil {
		R.HarnessError("reference wallet model failed its self-check: %v", err)
		os.Exit(R.Finish())
	}
	R.Extra("model_selfcheck", sc)

	var cases []*caseIn
	var add func(s verSpec, count int, i int)
	forcePath := ""
	add = func(s verSpec, count int, i int) {
		rng := R.Rng("case", i)
		c := &caseIn{idx: i, spec: s, count: count, seed: rng.Bytes(32)}
		c.wc = mon.Pick(rng, []int{0, 0, -1})
		if rng.Chance(1, 2) && s.r != rwallet.V5R1 {
			v := uint32(rng.Uint64())
			if rng.Bool() {
				v = mon.Pick(rng, []uint32{0, 1, rwallet.DefaultSubWalletBase, 1<<32 - 1})
			}
			c.sub = &v
		}
		if rng.Chance(1, 2) {
			v := mon.Pick(rng, []int32{-239, -3, 0, 1, int32(rng.Uint64())})
			c.net = &v
		}
		c.seqno, c.validUntil = pickU32(rng), pickU32(rng)
		c.path = mon.Pick(rng, []string{"raw", "raw", "sendv2", "body"})
		if count > 8 && c.path != "raw" && rng.Chance(1, 2) {
			c.path = "raw"
		}
		c.withInit = rng.Chance(1, 4)
		c.active = rng.Chance(3, 4)
		c.lifetime = time.Duration(rng.Range(30, 7200)) * time.Second
		c.v5internal = rng.Chance(1, 4)
		// drawn from their own streams so that the other parameters of a case do not depend on them
		if c.path == "body" {
			c.defaultVU = R.Rng("default-expiry", i).Chance(1, 6)
			if x := R.Rng("v5ext", i); s.t == twallet.V5R1 && x.Chance(2, 3) {
				c.v5ext = x.Range(2, 3)
			}
		}
		if forcePath != "" {
			c.path = forcePath
		}
		for k := 0; k < count; k++ {
			c.msgs = append(c.msgs, genMsg(rng, c.path))
		}
		cases = append(cases, c)
	}
	idx := 0
	rounds := R.N(14, 450)
	for round := 0; round < rounds; round++ {
		for _, s := range specs {
			counts := []int{0, 1, 2, s.max - 1, s.max, s.max + 1}
			if s.max > 4 {
				// the big bodies dominate the cost: one boundary count per round, small counts always
				rng := R.Rng("round", round*16+int(s.t))
				counts = []int{0, 1, 2, rng.Range(3, s.max-2), []int{s.max - 1, s.max, s.max + 1}[round%3]}
			} else {
				counts = []int{0, 1, 2, 3, 4, 5}
			}
			for _, n := range counts {
				add(s, n, idx)
				idx++
			}
		}
	}
	// far above the limit (a limit test that narrows the count would wrap): refused before anything is signed
	for _, s := range specs {
		seen := map[int]bool{}
		for k, n := range []int{s.max + 2, 256, 257, 300, 512, 65536 + 1} {
			if n <= s.max+1 || seen[n] || (n > 1000 && !R.Thorough()) {
				continue
			}
			seen[n] = true
			forcePath = []string{"raw", "sendv2"}[k%2]
			add(s, n, idx)
			idx++
		}
	}
	forcePath = ""
	if R.Thorough() {
		for _, s := range specs {
			for n := 0; n <= s.max+1; n++ {
				add(s, n, idx)
				idx++
			}
		}
		R.Extra("every_count_0_to_max_plus_1", true)
	}

	par := runtime.GOMAXPROCS(0)
	if par > 16 {
		par = 16
	}
	var wg sync.WaitGroup
	next := make(chan *caseIn)
	for g := 0; g < par; g++ {
		wg.Add(1)
		go func() {
			defer wg.Done()
			for c := range next {
				if p := mon.Guard(func() { runCase(c) }); p != nil {
					w := witness(c)
					w["panic"], w["stack"] = p.Value, mon.Trunc(p.Stack, 1500)
					if p.Site == "?" {
						R.HarnessError("harness panic in case %d: %s\n%s", c.idx, p.Value, mon.Trunc(p.Stack, 800))
					} else {
						R.Violation("panic@"+p.Site+"/"+c.path+"/"+c.spec.name, w)
					}
				}
			}
		}()
	}
	for _, c := range cases {
		next <- c
	}
	close(next)
	wg.Wait()
	R.Count("cases", int64(len(cases)))
	_ = bytes.Equal
	os.Exit(R.Finish())
}
