// C15 — wallet address and send parameters follow from key, version and
// chain state. Oracle: harness/ref/wallet (data layouts, StateInit, address
// = reference representation hash, v5 wallet id) and a scripted blockchain
// whose account state and per-poll seqno answers are the history the send
// and confirmation results are judged against. See DESIGN.md §5 C15.
package main

import (
	"context"
	"crypto/ed25519"
	"errors"
	"fmt"
	"os"
	"runtime"
	"sync"
	"sync/atomic"
	"time"

	tboc "github.com/tonkeeper/tongo/boc"
	"github.com/tonkeeper/tongo/tlb"
	"github.com/tonkeeper/tongo/ton"
	twallet "github.com/tonkeeper/tongo/wallet"

	"verifharness/bridge"
	"verifharness/mon"
	rbits "verifharness/ref/bits"
	rboc "verifharness/ref/boc"
	"verifharness/ref/cell"
	rdict "verifharness/ref/dict"
	rwallet "verifharness/ref/wallet"
)

var R *mon.Run

var sampleN, sendSampleN, confSampleN atomic.Int64

type verSpec struct {
	name  string
	t     twallet.Version
	r     rwallet.Version
	sends bool // the library implements sending for it
}

var specs = []verSpec{
	{"V1R1", twallet.V1R1, rwallet.V1R1, false},
	{"V1R2", twallet.V1R2, rwallet.V1R2, false},
	{"V1R3", twallet.V1R3, rwallet.V1R3, false},
	{"V2R1", twallet.V2R1, rwallet.V2R1, false},
	{"V2R2", twallet.V2R2, rwallet.V2R2, false},
	{"V3R1", twallet.V3R1, rwallet.V3R1, true},
	{"V3R2", twallet.V3R2, rwallet.V3R2, true},
	{"V4R1", twallet.V4R1, rwallet.V4R1, true},
	{"V4R2", twallet.V4R2, rwallet.V4R2, true},
	{"V5Beta", twallet.V5Beta, rwallet.V5Beta, true},
	{"V5R1", twallet.V5R1, rwallet.V5R1, true},
	{"HighLoadV2R2", twallet.HighLoadV2R2, rwallet.HighloadV2R2, true},
}

// ---------------------------------------------------------------- addresses

type tuple struct {
	ver      string
	key      [32]byte
	wc       int32
	sub, net string // effective values ("-" when the version has no such field)
}

var (
	collMu sync.Mutex
	coll   = map[string]tuple{} // "wc:hash" -> first tuple seen
)

func optPtrU32(v uint32) *uint32 { return &v }
func optPtrI32(v int32) *int32   { return &v }

type addrCase struct {
	spec verSpec
	seed []byte
	wc   int
	sub  *uint32
	net  *int32
	idx  int // position in the case list: selects the form in which the options are passed
}

// buildOpts passes the same option VALUES in different forms. The statement speaks about the
// requested workchain / sub-wallet id / network id, not about the order in which they are named:
//
//	form 0: WithWorkchain first, then sub-wallet, then network (the order GenerateWalletAddress uses)
//	form 1: a random order
//	form 2: workchain 0 requested by not naming a workchain at all (random order of the rest)
//	form 3: every option named twice with the same value, random order
func buildOpts(wc int, sub *uint32, net *int32, form int, r *mon.Rng) ([]twallet.Option, string) {
	var opts []twallet.Option
	name := []string{"canonical-order", "shuffled", "workchain-omitted", "repeated"}[form]
	if !(form == 2 && wc == 0) {
		opts = append(opts, twallet.WithWorkchain(wc))
	} else {
		name = "workchain-omitted(wc=0)"
	}
	if sub != nil {
		opts = append(opts, twallet.WithSubWalletID(*sub))
	}
	if net != nil {
		opts = append(opts, twallet.WithNetworkGlobalID(*net))
	}
	if form == 3 {
		opts = append(opts, opts...)
	}
	if form != 0 {
		p := r.Perm(len(opts))
		sh := make([]twallet.Option, len(opts))
		for i, j := range p {
			sh[i] = opts[j]
		}
		opts = sh
	}
	return opts, name
}

func (a addrCase) wit() map[string]any {
	w := map[string]any{"version": a.spec.name, "seed": mon.Hex(a.seed), "workchain": a.wc}
	if a.sub != nil {
		w["subwallet"] = *a.sub
	}
	if a.net != nil {
		w["network"] = *a.net
	}
	return w
}

func tongoStateInitCell(si tlb.StateInit) (*tboc.Cell, error) {
	c := tboc.NewCell()
	err := tlb.Marshal(c, si)
	return c, err
}

func checkAddress(a addrCase) {
	w := a.wit()
	s := a.spec
	priv := ed25519.NewKeyFromSeed(a.seed)
	pub := priv.Public().(ed25519.PublicKey)
	rp := rwallet.Params{Ver: s.r, Workchain: int32(a.wc), SubWallet: a.sub, NetworkID: a.net}
	copy(rp.PubKey[:], pub)
	v5r1Sub := s.r == rwallet.V5R1 && a.sub != nil
	if v5r1Sub {
		// the library documents that the sub-wallet option is not used for this version
		// ("todo: add options to configure wallet id"); the reference follows the spec with
		// subwallet_number = 0 and, alternatively, with the option in the 15-bit field.
		rp.SubWallet = nil
	}
	want, err := rwallet.Address(rp)
	if err != nil {
		R.HarnessError("reference address: %v", err)
		return
	}
	var alt *cell.Hash
	if v5r1Sub {
		rp2 := rp
		x := *a.sub & 0x7fff
		rp2.SubWallet = &x
		if h, err := rwallet.Address(rp2); err == nil {
			alt = &h
		}
	}
	refSI, _ := rwallet.InitialState(rp)

	opts, optForm := buildOpts(a.wc, a.sub, a.net, a.idx%4, R.Rng("opts", a.idx))
	w["option_form"] = optForm
	R.Seen("option_forms", optForm)
	var a1, a2 ton.AccountID
	var si tlb.StateInit
	var si2 *tlb.StateInit
	var e1, e2, e3, e4 error
	p := mon.Guard(func() {
		var wal twallet.Wallet
		wal, e1 = twallet.New(priv, s.t, nil, opts...)
		if e1 == nil {
			a1 = wal.GetAddress()
			si2, e4 = wal.StateInit()
		}
		a2, e2 = twallet.GenerateWalletAddress(pub, s.t, a.net, a.wc, a.sub)
		si, e3 = twallet.GenerateStateInit(pub, s.t, a.net, a.wc, a.sub)
	})
	if p != nil {
		w["panic"], w["stack"] = p.Value, mon.Trunc(p.Stack, 1200)
		R.Violation("panic@"+p.Site+"/address/"+s.name, w)
		return
	}
	if e1 != nil || e2 != nil || e3 != nil || e4 != nil {
		w["err"] = fmt.Sprint(e1, e2, e3, e4)
		R.Violation("error@address-api/"+s.name, w)
		return
	}
	R.Eval("addr/" + s.name + string(want[:8]))
	R.Count("addresses", 1)
	cls := fmt.Sprintf("%s/wc=%d/sub=%v/net=%v", s.name, a.wc, a.sub != nil, a.net != nil)
	R.Seen("address_classes", cls)

	matches := func(h [32]byte) bool { return h == want || (alt != nil && h == *alt) }
	if int(a1.Workchain) != a.wc || int(a2.Workchain) != a.wc {
		w["got_wc"] = []int32{a1.Workchain, a2.Workchain}
		R.Violation("workchain-mismatch/"+s.name, w)
		return
	}
	if a1.Address != a2.Address {
		w["new"], w["generate"] = mon.Hex(a1.Address[:]), mon.Hex(a2.Address[:])
		R.Violation("apis-disagree@New-vs-GenerateWalletAddress/"+s.name, w)
		return
	}
	for i, x := range []*tlb.StateInit{&si, si2} {
		api := []string{"GenerateStateInit", "Wallet.StateInit"}[i]
		var sc *tboc.Cell
		var th tlb.Bits256
		var herr error
		var rc *cell.Cell
		if p := mon.Guard(func() {
			if sc, herr = tongoStateInitCell(*x); herr == nil {
				th, herr = sc.Hash256()
				rc = bridge.FromTongo(sc)
			}
		}); p != nil || herr != nil {
			w["err"] = fmt.Sprint(herr, p)
			R.Violation("error@marshal-state-init/"+s.name, w)
			return
		}
		if rc.Hash() != [32]byte(a1.Address) || [32]byte(th) != [32]byte(a1.Address) {
			w["api"], w["state_init_hash"], w["address"] = api, mon.Hex(th[:]), mon.Hex(a1.Address[:])
			R.Violation("apis-disagree@hash("+api+")-vs-address/"+s.name, w)
			return
		}
		// structure against the reference, for a precise verdict
		if i == 0 && !matches(a1.Address) {
			parts, perr := rwallet.ParseStateInit(rc)
			refParts, _ := rwallet.ParseStateInit(refSI)
			switch {
			case perr != nil || parts.Code == nil || parts.Data == nil || parts.Library != nil || parts.SplitDepth != nil || parts.Special != nil:
				w["err"] = fmt.Sprint(perr)
				R.Violation("address-mismatch@state-init-shape/"+s.name, w)
			case parts.Code.Hash() != refParts.Code.Hash():
				R.Violation("address-mismatch@code-not-the-published-code/"+s.name, w)
			case !rbits.Equal(parts.Data.Bits, refParts.Data.Bits) || len(parts.Data.Refs) != 0:
				w["data"], w["want_data"] = rbits.FiftHex(parts.Data.Bits), rbits.FiftHex(refParts.Data.Bits)
				f := "data-layout"
				if v5r1Sub || s.r == rwallet.V5R1 {
					f = "data-layout(wallet-id)"
				}
				R.Violation("address-mismatch@"+f+"/"+s.name+fmt.Sprintf("/wc=%d", a.wc), w)
			default:
				R.Violation("address-mismatch@hash/"+s.name, w)
			}
			return
		}
	}
	if v5r1Sub {
		if a1.Address == want && (alt == nil || *alt != want) {
			R.Seen("observed", "V5R1 ignores WithSubWalletID (wallet id always built with subwallet_number 0)")
		}
	}

	if sampleN.Add(1)%9001 == 1 {
		sw := a.wit()
		sw["kind"], sw["address"], sw["apis_agree"] = "address", fmt.Sprintf("%d:%x", a1.Workchain, a1.Address), true
		R.Sample(sw)
	}

	// collision map over effective tuples
	t := tuple{ver: s.name, wc: int32(a.wc), sub: "-", net: "-"}
	copy(t.key[:], pub)
	if rwallet.HasSubWallet(s.r) {
		t.sub = fmt.Sprint(rp.SubWalletOf())
		if v5r1Sub && alt != nil && a1.Address == *alt && *alt != want {
			t.sub = fmt.Sprint(*a.sub & 0x7fff)
		}
	}
	if rwallet.HasNetworkID(s.r) {
		t.net = fmt.Sprint(rp.NetworkOf())
	}
	k := fmt.Sprintf("%d:%x", a1.Workchain, a1.Address)
	collMu.Lock()
	prev, seen := coll[k]
	if !seen {
		coll[k] = t
	}
	collMu.Unlock()
	if seen && prev != t {
		w["other"] = fmt.Sprintf("%+v", prev)
		w["this"] = fmt.Sprintf("%+v", t)
		R.Violation("address-collision/"+s.name+"-"+prev.ver, w)
	}
}

func sectionAddresses() {
	nKeys := R.N(50, 400)
	// 0, -1: the two workchains of the network; the others are boundary values of the 8-bit
	// workchain field of v5 data and of addr_std (and values next to them)
	wcsAll := []int{0, -1, 1, 127}
	wcsFew := []int{-128, -2, 2, 126}
	// workchains that do not fit into 8 bits: only for the versions whose data does not hold the
	// workchain (AccountID.Workchain is an int32); what a v5 wallet id is for them is not defined
	wcsWide := []int{128, 255, 256, -129, 1 << 20, -(1 << 31)}
	nets := []*int32{nil, optPtrI32(-239), optPtrI32(-3), optPtrI32(0), optPtrI32(1)}
	var cases []addrCase
	add := func(s verSpec, seed []byte, wc int, sub *uint32, net *int32) {
		cases = append(cases, addrCase{spec: s, seed: seed, wc: wc, sub: sub, net: net, idx: len(cases)})
	}
	for ki := 0; ki < nKeys; ki++ {
		rng := R.Rng("key", ki)
		seed := rng.Bytes(32)
		subs := []*uint32{nil, optPtrU32(0), optPtrU32(1), optPtrU32(rwallet.DefaultSubWalletBase), optPtrU32(1<<32 - 1), optPtrU32(uint32(rng.Uint64()))}
		for _, s := range specs {
			wcs := wcsAll
			if ki%5 == 0 {
				wcs = append(append([]int(nil), wcsAll...), wcsFew...)
				if !rwallet.HasNetworkID(s.r) {
					wcs = append(wcs, wcsWide...)
				}
			}
			for _, wc := range wcs {
				switch {
				case !rwallet.HasSubWallet(s.r):
					add(s, seed, wc, nil, nil)
					if rng.Chance(1, 4) { // options without meaning for the version must not matter
						add(s, seed, wc, mon.Pick(rng, subs), mon.Pick(rng, nets))
					}
				case s.r == rwallet.V5Beta:
					for _, sub := range subs {
						for _, net := range nets {
							add(s, seed, wc, sub, net)
						}
					}
				case s.r == rwallet.V5R1:
					for _, net := range nets {
						add(s, seed, wc, nil, net)
						add(s, seed, wc, optPtrU32(uint32(rng.Range(1, 0x7fff))), net)
					}
				default:
					for _, sub := range subs {
						var net *int32
						if rng.Chance(1, 4) {
							net = mon.Pick(rng, nets)
						}
						add(s, seed, wc, sub, net)
					}
				}
			}
		}
	}
	parallel(len(cases), func(i int) { checkAddress(cases[i]) })
	R.Extra("address_tuples", len(cases))
	collMu.Lock()
	R.Extra("distinct_addresses", len(coll))
	collMu.Unlock()
	// the published code is what the library ships
	for _, s := range specs {
		var th tlb.Bits256
		if p := mon.Guard(func() { th = twallet.GetCodeHashByVer(s.t) }); p != nil {
			R.Violation("panic@"+p.Site+"/GetCodeHashByVer/"+s.name, map[string]any{"panic": p.Value})
			continue
		}
		R.Eval("code/" + s.name)
		if [32]byte(th) != rwallet.Code(s.r).Hash() {
			R.Violation("code-not-the-published-code/"+s.name, map[string]any{"got": mon.Hex(th[:])})
		}
	}
}

func parallel(n int, f func(i int)) {
	par := runtime.GOMAXPROCS(0)
	if par > 16 {
		par = 16
	}
	var wg sync.WaitGroup
	var next int64 = -1
	for g := 0; g < par; g++ {
		wg.Add(1)
		go func() {
			defer wg.Done()
			for {
				i := int(atomic.AddInt64(&next, 1))
				if i >= n {
					return
				}
				if p := mon.Guard(func() { f(i) }); p != nil {
					if p.Site == "?" {
						R.HarnessError("harness panic: %s\n%s", p.Value, mon.Trunc(p.Stack, 800))
					} else {
						R.Violation("panic@"+p.Site, map[string]any{"panic": p.Value, "stack": mon.Trunc(p.Stack, 1500)})
					}
				}
			}
		}()
	}
	wg.Wait()
}

// ------------------------------------------------------- scripted blockchain

type poll struct {
	N     int
	AtMs  float64
	Value uint32
	Err   bool
	Addr  string
}

type chain struct {
	mu       sync.Mutex
	state    tlb.ShardAccount
	stateErr error
	sent     [][]byte
	sentAt   []time.Time
	stateQ   []ton.AccountID
	polls    []poll
	// n = 1-based poll number, sinceSend = time since the (last) message was handed to SendMessage
	script func(n int, sinceSend time.Duration) (uint32, error)
	t0     time.Time
}

func (c *chain) GetSeqno(ctx context.Context, a ton.AccountID) (uint32, error) {
	c.mu.Lock()
	defer c.mu.Unlock()
	n := len(c.polls) + 1
	var v uint32
	var err error
	var since time.Duration
	if len(c.sentAt) > 0 {
		since = time.Since(c.sentAt[len(c.sentAt)-1])
	}
	if c.script != nil {
		v, err = c.script(n, since)
	} else {
		err = fmt.Errorf("scripted: unexpected GetSeqno")
	}
	c.polls = append(c.polls, poll{N: n, AtMs: float64(time.Since(c.t0).Microseconds()) / 1000, Value: v, Err: err != nil, Addr: a.ToRaw()})
	return v, err
}
func (c *chain) SendMessage(ctx context.Context, payload []byte) (uint32, error) {
	c.mu.Lock()
	c.sent = append(c.sent, append([]byte(nil), payload...))
	c.sentAt = append(c.sentAt, time.Now())
	c.mu.Unlock()
	return 0, nil
}
func (c *chain) GetAccountState(ctx context.Context, a ton.AccountID) (tlb.ShardAccount, error) {
	c.mu.Lock()
	defer c.mu.Unlock()
	c.stateQ = append(c.stateQ, a)
	return c.state, c.stateErr
}
func (c *chain) setState(s tlb.ShardAccount, err error) {
	c.mu.Lock()
	c.state, c.stateErr = s, err
	c.mu.Unlock()
}

// richDataCell is the persistent data of a wallet that has been in use: the same fields as
// rwallet.DataBits, but with a non-empty dictionary where the layout has one (installed plugins of
// v4, extensions of v5, pending queries of the highload wallet) and a non-zero last_cleaned time.
//
//	v4       : ... plugins:(HashmapE 264 <empty>)          key = wc:int8 addr:bits256
//	v5 beta  : ... extensions:(HashmapE 256 int8)          value = workchain of the extension
//	v5r1     : ... extensions:(HashmapE 256 int1)          value = -1
//	highload : subwallet_id last_cleaned:uint64 public_key old_queries:(HashmapE 64 <anything>)
func richDataCell(rp rwallet.Params, seqno uint32, r *mon.Rng) (*cell.Cell, string, error) {
	b, err := rwallet.DataBits(rp, seqno)
	if err != nil {
		return nil, "", err
	}
	keyBits := 0
	var val func() []bool
	what := ""
	switch rp.Ver {
	case rwallet.V4R1, rwallet.V4R2:
		keyBits, val, what = 264, func() []bool { return nil }, "plugins"
	case rwallet.V5Beta:
		keyBits, val, what = 256, func() []bool { return rbits.IntBits(int64(-r.Intn(2)), 8) }, "extensions"
	case rwallet.V5R1:
		keyBits, val, what = 256, func() []bool { return []bool{true} }, "extensions"
	case rwallet.HighloadV2R2:
		keyBits, val, what = 64, func() []bool { return r.Bits(mon.Pick(r, []int{0, 0, 1, 32})) }, "old-queries+last-cleaned"
	default:
		return cell.New(b, false), "layout-without-dictionary", nil
	}
	if len(b) == 0 || b[len(b)-1] {
		return nil, "", fmt.Errorf("reference layout of %v does not end with an empty dictionary", rp.Ver)
	}
	b = append([]bool(nil), b[:len(b)-1]...)
	if rp.Ver == rwallet.HighloadV2R2 {
		copy(b[32:96], rbits.UintBits(r.Uint64()|1, 64))
	}
	n := r.Range(1, 4)
	seen := map[string]bool{}
	var es []rdict.Entry
	for len(es) < n {
		k := r.Bits(keyBits)
		if ks := rdict.KeyString(k); !seen[ks] {
			seen[ks] = true
			es = append(es, rdict.Entry{Key: k, Val: rdict.Value{Bits: val()}})
		}
	}
	v, err := (&rdict.Builder{N: keyBits}).HashmapE(es)
	if err != nil {
		return nil, "", err
	}
	return cell.New(append(b, v.Bits...), false, v.Refs...), what, nil
}

// accountState builds what the chain reports for the wallet. rich != nil: the data of a wallet in
// use (see richDataCell) instead of the minimal layout.
func accountState(kind string, s verSpec, rp rwallet.Params, addr ton.AccountID, seqno uint32, rich *mon.Rng) (tlb.ShardAccount, error) {
	var sa tlb.ShardAccount
	if kind == "none" {
		sa.Account.SumType = "AccountNone"
		return sa, nil
	}
	sa.Account.SumType = "Account"
	sa.Account.Account.Addr = addr.ToMsgAddress()
	sa.Account.Account.Storage.Balance.Grams = 1_000_000_000
	st := &sa.Account.Account.Storage.State
	switch kind {
	case "uninit":
		st.SumType = "AccountUninit"
	case "frozen":
		st.SumType = "AccountFrozen"
		st.AccountFrozen.StateHash = addr.Address
	case "active":
		st.SumType = "AccountActive"
		var data *cell.Cell
		var err error
		if rich != nil {
			var what string
			if data, what, err = richDataCell(rp, seqno, rich); err == nil {
				R.Seen("on_chain_data_forms", s.name+": "+what)
			}
		} else {
			data, err = rwallet.DataCell(rp, seqno)
		}
		if err != nil {
			return sa, err
		}
		// on-chain data and code come from the reference model, delivered through a BOC
		cs, _, err := bridge.ToTongoParsed([]*cell.Cell{rwallet.Code(s.r), data}, rboc.Options{})
		if err != nil || len(cs) != 2 {
			return sa, fmt.Errorf("delivering reference state: %v", err)
		}
		si := &st.AccountActive.StateInit
		si.Code.Exists, si.Code.Value.Value = true, *cs[0]
		si.Data.Exists, si.Data.Value.Value = true, *cs[1]
	}
	return sa, nil
}

// ------------------------------------------------------------ send semantics

type sendCase struct {
	idx   int
	spec  verSpec
	seed  []byte
	wc    int
	sub   *uint32
	net   *int32
	kind  string // "" one send | "reuse" several sends on one Wallet | "state-error" the state query fails
	state string
	k     uint32
	rich  bool // active account whose data holds non-empty dictionaries
	raw   bool // confirmation through RawSendV2 instead of SendV2
	// confirmation script
	script    string // "" | advance | jump | never | lagging-never | lagging-then-advance | errors-then-advance | always-error | timed-advance | timed-late-advance
	advanceAt int
	// the lifetime of the message is not the caller's deadline: validUntil may lie before t + waiting time
	lifetimeMs int     // SendV2: wallet built WithMessageLifetime(lifetimeMs) (0 = default)
	rawValid   string  // RawSendV2: "" = a minute from now | "past" | "fixed-early" (a constant instant long ago)
	delta      uint32  // jump: how far the seqno is ahead when it has advanced
	advFrac    float64 // timed-*: the chain advances advFrac * waiting time after the message was sent
	waitMs     int
}

func (c *sendCase) wit() map[string]any {
	w := map[string]any{"case": c.idx, "version": c.spec.name, "seed": mon.Hex(c.seed), "workchain": c.wc, "account_state": c.state, "stored_seqno": c.k}
	if c.sub != nil {
		w["subwallet"] = *c.sub
	}
	if c.net != nil {
		w["network"] = *c.net
	}
	if c.kind != "" {
		w["kind"] = c.kind
	}
	if c.rich {
		w["on_chain_data"] = "with non-empty dictionaries"
	}
	if c.script != "" {
		w["script"], w["advance_at_poll"], w["wait_ms"] = c.script, c.advanceAt, c.waitMs
		if c.delta != 0 {
			w["seqno_ahead_by"] = c.delta
		}
		if c.advFrac != 0 {
			w["chain_advances_after_ms"] = int(c.advFrac * float64(c.waitMs))
		}
		if c.lifetimeMs != 0 {
			w["message_lifetime_ms"] = c.lifetimeMs
		}
		if c.rawValid != "" {
			w["valid_until"] = c.rawValid
		}
	}
	return w
}

// scheduling lateness of this process, sampled all the time the sends run
var maxLateMs atomic.Int64

type lateEvt struct {
	at   time.Time
	late time.Duration
}

var (
	lateMu  sync.Mutex
	lateLog []lateEvt // every sample that woke up >= 2 ms late
)

func latenessProbe(stop <-chan struct{}) {
	for {
		select {
		case <-stop:
			return
		default:
		}
		t := time.Now()
		time.Sleep(5 * time.Millisecond)
		d := time.Since(t) - 5*time.Millisecond
		if d >= 2*time.Millisecond {
			lateMu.Lock()
			lateLog = append(lateLog, lateEvt{time.Now(), d})
			lateMu.Unlock()
		}
		late := d.Milliseconds()
		for {
			cur := maxLateMs.Load()
			if late <= cur || maxLateMs.CompareAndSwap(cur, late) {
				break
			}
		}
	}
}

// worstLateBetween: the worst lateness the probe saw between two instants (with a margin).
func worstLateBetween(a, b time.Time) time.Duration {
	a, b = a.Add(-20*time.Millisecond), b.Add(20*time.Millisecond)
	var worst time.Duration
	lateMu.Lock()
	for _, e := range lateLog {
		if e.at.After(a) && e.at.Add(-e.late).Before(b) && e.late > worst {
			worst = e.late
		}
	}
	lateMu.Unlock()
	return worst
}

type sendEnv struct {
	c        *sendCase
	s        verSpec
	pub      ed25519.PublicKey
	rp       rwallet.Params
	ch       *chain
	wal      twallet.Wallet
	addr     ton.AccountID
	wantAddr cell.Hash
	dw       int8
	dest     [32]byte
	transfer twallet.SimpleTransfer
}

func newEnv(c *sendCase, w map[string]any) *sendEnv {
	e := &sendEnv{c: c, s: c.spec}
	priv := ed25519.NewKeyFromSeed(c.seed)
	e.pub = priv.Public().(ed25519.PublicKey)
	e.rp = rwallet.Params{Ver: e.s.r, Workchain: int32(c.wc), SubWallet: c.sub, NetworkID: c.net}
	copy(e.rp.PubKey[:], e.pub)
	opts, optForm := buildOpts(c.wc, c.sub, c.net, c.idx%4, R.Rng("send-opts", c.idx))
	w["option_form"] = optForm
	if c.lifetimeMs > 0 {
		opts = append(opts, twallet.WithMessageLifetime(time.Duration(c.lifetimeMs)*time.Millisecond))
	}
	e.ch = &chain{}
	var err error
	if e.wal, err = twallet.New(priv, e.s.t, e.ch, opts...); err != nil {
		w["err"] = err.Error()
		R.Violation("error@wallet.New/"+e.s.name, w)
		return nil
	}
	e.addr = e.wal.GetAddress()
	if e.wantAddr, err = rwallet.Address(e.rp); err != nil {
		R.HarnessError("reference address: %v", err)
		return nil
	}
	e.dw, e.dest = randDest(R.Rng("dest", c.idx))
	e.transfer = twallet.SimpleTransfer{Amount: 12345, Address: ton.AccountID{Workchain: int32(e.dw), Address: e.dest}, Comment: "c15"}
	return e
}

// judgeSent decides what was handed to SendMessage against the account state the chain reported
// (state, stored) at that moment. tag names the situation in the signatures ("" = a single send).
func (e *sendEnv) judgeSent(w map[string]any, payload []byte, state string, stored uint32, raw bool, tag string) (*rwallet.ExtIn, *rwallet.Request, bool) {
	c, s := e.c, e.s
	w["payload"] = mon.HexTrunc(payload, 2000)
	roots, _, _, rerr := rboc.Read(payload)
	if rerr != nil || len(roots) != 1 {
		w["err"] = fmt.Sprint(rerr)
		R.Violation("invalid-boc@payload/"+s.name, w)
		return nil, nil, false
	}
	ext, rerr := rwallet.ParseExtIn(roots[0])
	if rerr != nil {
		w["err"] = rerr.Error()
		R.Violation("not-an-external-message@payload/"+s.name, w)
		return nil, nil, false
	}
	if int(ext.DestWC) != c.wc || ext.Dest != e.wantAddr || e.addr.Address != tlb.Bits256(e.wantAddr) {
		w["dest"] = fmt.Sprintf("%d:%x", ext.DestWC, ext.Dest)
		w["want"] = fmt.Sprintf("%d:%x", c.wc, e.wantAddr)
		R.Violation("destination-is-not-the-wallet/"+s.name+tag, w)
		return nil, nil, false
	}
	if ext.ImportFee.Sign() != 0 {
		R.Seen("observed", "external message with a non-zero import fee (not asserted: the statement is silent)")
	}
	req, derr := rwallet.Decode(s.r, ext.Body)
	if derr != nil {
		w["err"] = derr.Error()
		R.Violation("undecodable-body@reference/"+s.name, w)
		return nil, nil, false
	}
	if !rwallet.Verify(s.r, ext.Body, e.pub) {
		R.Violation("bad-signature@reference-verifier/"+s.name, w)
		return nil, nil, false
	}
	if raw {
		return ext, req, true
	}
	if rwallet.HasSeqno(s.r) && req.Seqno != stored && state != "frozen" {
		w["body_seqno"], w["want"] = req.Seqno, stored
		R.Violation(fmt.Sprintf("seqno-mismatch@%s/%s%s", state, s.name, tag), w)
		return nil, nil, false
	}
	switch state {
	case "none", "uninit":
		if ext.Init == nil {
			R.Violation("init-missing@"+state+"/"+s.name+tag, w)
			return nil, nil, false
		}
		if ext.Init.Cell().Hash() != e.wantAddr {
			w["init_hash"] = mon.Hex(hs(ext.Init.Cell().Hash()))
			R.Violation("init-does-not-hash-to-address@"+state+"/"+s.name+tag, w)
			return nil, nil, false
		}
	case "active":
		if ext.Init != nil {
			R.Violation("init-attached@active/"+s.name+tag, w)
			return nil, nil, false
		}
	case "frozen":
		R.Seen("observed", fmt.Sprintf("frozen account: init attached=%v (not asserted)", ext.Init != nil))
	}
	// what the body carries is C14's subject; here only a coverage fact
	carried := false
	if len(req.Msgs) == 1 {
		if im, ierr := rwallet.ParseInt(req.Msgs[0].Msg); ierr == nil && im.DestWC == e.dw && im.Dest == e.dest && im.Amount.Uint64() == 12345 {
			carried = true
		}
	}
	if carried {
		R.Count("payloads_carrying_the_requested_transfer", 1)
	} else {
		R.Count("payloads_not_carrying_the_requested_transfer(not judged here: C14)", 1)
	}
	return ext, req, true
}

// storedSeqno: what the data of the scripted account holds for the version (0 when there is none).
func storedSeqno(s verSpec, state string, k uint32) uint32 {
	if state == "active" && rwallet.HasSeqno(s.r) {
		return k
	}
	return 0
}

func (e *sendEnv) sendPlain(w map[string]any, what string) (error, bool) {
	var sendErr error
	p := mon.Guard(func() { _, sendErr = e.wal.SendV2(context.Background(), 0, e.transfer) })
	if p != nil {
		w["panic"], w["stack"] = p.Value, mon.Trunc(p.Stack, 1200)
		R.Violation("panic@"+p.Site+"/SendV2/"+e.s.name+"/"+what, w)
		return nil, false
	}
	return sendErr, true
}

func (e *sendEnv) checkStateQueries(w map[string]any) bool {
	e.ch.mu.Lock()
	q := append([]ton.AccountID(nil), e.ch.stateQ...)
	e.ch.mu.Unlock()
	for _, a := range q {
		if a != e.addr {
			w["state_queries"] = fmt.Sprint(q)
			R.Violation("account-state-asked-for-another-account/"+e.s.name, w)
			return false
		}
	}
	return true
}

// runReuse: several sends through ONE Wallet value while the account changes between them. Every
// message must follow from the state the chain reports at the moment of that send.
func runReuse(e *sendEnv, w map[string]any) {
	c, s := e.c, e.s
	rng := R.Rng("reuse", c.idx)
	type step struct {
		state string
		k     uint32
	}
	var steps []step
	for len(steps) < 3 {
		st := step{state: mon.Pick(rng, []string{"none", "uninit", "active", "active", "active"})}
		if st.state == "active" {
			st.k = mon.Pick(rng, []uint32{0, 1, 3, 7, 8, 1<<32 - 1, uint32(rng.Uint64())})
		}
		if n := len(steps); n > 0 && steps[n-1] == st {
			continue
		}
		steps = append(steps, st)
	}
	w["account_history"] = fmt.Sprintf("%+v", steps)
	for i, st := range steps {
		sa, err := accountState(st.state, s, e.rp, e.addr, st.k, nil)
		if err != nil {
			R.HarnessError("account state: %v", err)
			return
		}
		e.ch.setState(sa, nil)
		e.ch.mu.Lock()
		before := len(e.ch.sent)
		e.ch.mu.Unlock()
		sw := witnessCopy(w)
		sw["send_number"], sw["account_state"], sw["stored_seqno"] = i+1, st.state, st.k
		sendErr, ok := e.sendPlain(sw, "reused-wallet")
		if !ok {
			return
		}
		e.ch.mu.Lock()
		sent := e.ch.sent[before:]
		e.ch.mu.Unlock()
		R.Eval(fmt.Sprintf("reuse/%s/%d/%s/k=%d/wc=%d", s.name, i+1, st.state, st.k, c.wc))
		R.Count("sends", 1)
		R.Count("sends_on_a_reused_wallet", 1)
		if sendErr != nil || len(sent) != 1 {
			sw["err"], sw["captured"] = fmt.Sprint(sendErr), len(sent)
			R.Violation(fmt.Sprintf("error@send-without-confirmation/%s/reused-wallet(send %d)", s.name, i+1), sw)
			return
		}
		tag := ""
		if i > 0 {
			tag = fmt.Sprintf("/reused-wallet(send %d)", i+1)
		}
		if _, _, ok := e.judgeSent(sw, sent[0], st.state, storedSeqno(s, st.state, st.k), false, tag); !ok {
			return
		}
		R.Seen("reuse_transitions", fmt.Sprintf("%s: send %d with the account %s", s.name, i+1, st.state))
	}
	e.checkStateQueries(w)
}

// runStateError: the state query fails. Whatever the wallet does then, a message it sends must not
// contradict the real state of the account (scripted: it is what the next, successful query reports).
func runStateError(e *sendEnv, w map[string]any) {
	c, s := e.c, e.s
	sa, err := accountState(c.state, s, e.rp, e.addr, c.k, nil)
	if err != nil {
		R.HarnessError("account state: %v", err)
		return
	}
	stored := storedSeqno(s, c.state, c.k)
	e.ch.setState(sa, errors.New("scripted: lite server unavailable"))
	sendErr, ok := e.sendPlain(w, "state-query-fails")
	if !ok {
		return
	}
	e.ch.mu.Lock()
	sent := append([][]byte(nil), e.ch.sent...)
	e.ch.mu.Unlock()
	R.Eval(fmt.Sprintf("state-error/%s/%s/k=%d/wc=%d", s.name, c.state, c.k, c.wc))
	R.Count("sends", 1)
	R.Count("sends_with_a_failing_state_query", 1)
	w["result"] = fmt.Sprint(sendErr)
	switch {
	case len(sent) == 0 && sendErr != nil:
		R.Seen("observed", "state query fails: nothing sent, error returned")
	case len(sent) == 0:
		R.Seen("observed", "state query fails: nothing sent, no error (not asserted)")
	default:
		for _, p := range sent {
			if _, _, ok := e.judgeSent(witnessCopy(w), p, c.state, stored, false, "/account-state-unavailable"); !ok {
				return
			}
		}
	}
	// the node answers again
	e.ch.setState(sa, nil)
	before := len(sent)
	sendErr, ok = e.sendPlain(w, "after-failed-state-query")
	if !ok {
		return
	}
	e.ch.mu.Lock()
	sent = append([][]byte(nil), e.ch.sent[before:]...)
	e.ch.mu.Unlock()
	R.Eval("")
	R.Count("sends", 1)
	if sendErr != nil || len(sent) != 1 {
		w["err"], w["captured"] = fmt.Sprint(sendErr), len(sent)
		R.Violation("error@send-without-confirmation/"+s.name+"/after-failed-state-query", w)
		return
	}
	e.judgeSent(w, sent[0], c.state, stored, false, "/after-failed-state-query")
}

func witnessCopy(w map[string]any) map[string]any {
	o := make(map[string]any, len(w)+4)
	for k, v := range w {
		o[k] = v
	}
	return o
}

// runSend runs one case. It returns true when a timing-dependent verdict could not be taken
// because the machine was late and the case should be run again (last = no further attempt).
func runSend(c *sendCase, last bool) (retry bool) {
	w := c.wit()
	s := c.spec
	e := newEnv(c, w)
	if e == nil {
		return
	}
	switch c.kind {
	case "reuse":
		runReuse(e, w)
		return
	case "state-error":
		runStateError(e, w)
		return
	}
	ch, wal, addr := e.ch, e.wal, e.addr
	var richRng *mon.Rng
	if c.rich {
		richRng = R.Rng("rich", c.idx)
	}
	sa, err := accountState(c.state, s, e.rp, addr, c.k, richRng)
	if err != nil {
		R.HarnessError("account state: %v", err)
		return
	}
	ch.setState(sa, nil)
	stored := storedSeqno(s, c.state, c.k)
	wait := time.Duration(c.waitMs) * time.Millisecond
	advAfter := time.Duration(c.advFrac * float64(wait))
	unavailable := fmt.Errorf("scripted: lite server unavailable")
	switch c.script {
	case "advance":
		ch.script = func(n int, _ time.Duration) (uint32, error) {
			if n >= c.advanceAt {
				return stored + 1, nil
			}
			return stored, nil
		}
	case "jump": // several messages of the wallet were processed in between
		ch.script = func(n int, _ time.Duration) (uint32, error) {
			if n >= c.advanceAt {
				return stored + c.delta, nil
			}
			return stored, nil
		}
	case "never":
		ch.script = func(int, time.Duration) (uint32, error) { return stored, nil }
	case "lagging-never": // a node that is behind: it still reports the seqno before the last processed message
		ch.script = func(n int, _ time.Duration) (uint32, error) {
			if n%3 == 0 {
				return stored, nil
			}
			return stored - 1, nil
		}
	case "lagging-then-advance":
		ch.script = func(n int, _ time.Duration) (uint32, error) {
			if n >= c.advanceAt {
				return stored + 1, nil
			}
			return stored - 1, nil
		}
	case "errors-then-advance":
		ch.script = func(n int, _ time.Duration) (uint32, error) {
			if n < c.advanceAt {
				return 0, unavailable
			}
			return stored + 1, nil
		}
	case "always-error":
		ch.script = func(int, time.Duration) (uint32, error) { return 0, unavailable }
	case "timed-advance", "timed-late-advance": // the chain moves on at an instant of its own, whoever asks
		ch.script = func(_ int, since time.Duration) (uint32, error) {
			if since >= advAfter {
				return stored + 1, nil
			}
			return stored, nil
		}
	}

	var sendErr error
	ch.t0 = time.Now()
	start := time.Now()
	p := mon.Guard(func() {
		if c.raw {
			im, mode, terr := e.transfer.ToInternal()
			if terr != nil {
				sendErr = terr
				return
			}
			mc := tboc.NewCell()
			if merr := tlb.Marshal(mc, im); merr != nil {
				sendErr = merr
				return
			}
			validUntil := time.Now().Add(time.Minute)
			switch c.rawValid {
			case "past":
				validUntil = time.Now().Add(-time.Hour)
			case "fixed-early":
				validUntil = time.Unix(1_700_000_000, 0)
			}
			_, sendErr = wal.RawSendV2(context.Background(), stored, validUntil, []twallet.RawMessage{{Message: mc, Mode: mode}}, nil, wait)
			return
		}
		_, sendErr = wal.SendV2(context.Background(), wait, e.transfer)
	})
	end := time.Now()
	elapsed := end.Sub(start)
	if p != nil {
		w["panic"], w["stack"] = p.Value, mon.Trunc(p.Stack, 1200)
		R.Violation("panic@"+p.Site+"/SendV2/"+s.name+"/"+c.state, w)
		return
	}
	ch.mu.Lock()
	sent := ch.sent
	polls := append([]poll(nil), ch.polls...)
	ch.mu.Unlock()
	w["polls"] = polls
	w["elapsed_ms"] = elapsed.Milliseconds()
	w["result"] = fmt.Sprint(sendErr)

	fp := fmt.Sprintf("send/%s/%s/k=%d/rich=%v/raw=%v/%s@%d/wc=%d", s.name, c.state, c.k, c.rich, c.raw, c.script, c.advanceAt, c.wc)
	R.Eval(fp)
	R.Seen("send_classes", fmt.Sprintf("%s/%s", s.name, c.state))
	R.Count("sends", 1)

	// --- what was sent ---
	if len(sent) == 0 && sendErr != nil && (c.state == "none" || c.state == "uninit" || c.state == "active") {
		// a well-formed account state for which the statement says what is sent: nothing was
		w["err"] = sendErr.Error()
		form := ""
		if c.rich {
			form = "/data-with-dictionaries"
		}
		R.Violation("nothing-sent@"+c.state+"/"+s.name+form, w)
		return
	}
	if len(sent) != 1 {
		w["captured"] = len(sent)
		R.Violation("payload-count@"+c.state+"/"+s.name, w)
		return
	}
	if !e.checkStateQueries(w) {
		return
	}
	ext, req, ok := e.judgeSent(w, sent[0], c.state, stored, c.raw, "")
	if !ok {
		return
	}

	if (c.script == "" && sendSampleN.Add(1)%150 == 1) || (c.script != "" && confSampleN.Add(1)%100 == 1) {
		R.Sample(map[string]any{"kind": "send", "version": s.name, "account_state": c.state, "stored_seqno": stored, "body_seqno": req.Seqno,
			"init_attached": ext.Init != nil, "script": c.script, "advance_at_poll": c.advanceAt, "wait_ms": c.waitMs, "polls": len(polls),
			"elapsed_ms": elapsed.Milliseconds(), "result": fmt.Sprint(sendErr)})
	}

	// --- confirmation ---
	if c.script == "" {
		if sendErr != nil {
			w["err"] = sendErr.Error()
			R.Violation("error@send-without-confirmation/"+s.name+"/"+c.state, w)
		}
		if len(polls) != 0 {
			R.Violation("polls-without-confirmation-request/"+s.name, w)
		}
		return
	}
	R.Seen("confirmation_scripts", fmt.Sprintf("%s@%d%s", c.script, c.advanceAt, lifeTag(c)))
	R.Count("confirmation_runs", 1)
	for _, pl := range polls {
		if pl.Addr != addr.ToRaw() {
			R.Violation("seqno-asked-for-another-account/"+s.name, w)
			return
		}
	}
	const slack = 2 * time.Second
	late := time.Duration(maxLateMs.Load()) * time.Millisecond
	sawAdvance := false
	for _, pl := range polls {
		if !pl.Err && pl.Value > stored {
			sawAdvance = true
		}
	}
	switch c.script {
	case "advance", "jump", "lagging-then-advance", "errors-then-advance":
		if sawAdvance {
			// the wallet was told, with a nil error, that the seqno is past the one it used
			if sendErr != nil {
				w["err"] = sendErr.Error()
				R.Violation("confirmation-missed@"+c.script, w)
			}
			return
		}
		// no poll was answered with a seqno past the one used: in this history the seqno never advanced
		if sendErr == nil {
			R.Violation("confirmed-without-advance@"+c.script, w)
			return
		}
		if elapsed < wait {
			// gave up before the caller's deadline (the harness clock started before the wallet's)
			R.Violation("timeout-before-deadline@"+c.script+lifeTag(c), w)
			return
		}
		// it never got as far as poll advanceAt
		if late > slack/4 || elapsed > wait+slack {
			R.Inconclusive("confirmation: machine too slow to reach the scripted poll")
			return
		}
		// the scripted advance never happened in this run's history (poll cadence is not part of the statement)
		R.Count("advance_poll_not_reached", 1)
	case "never", "always-error", "lagging-never":
		if sendErr == nil {
			R.Violation("confirmed-without-advance@"+c.script, w)
			return
		}
		if elapsed < wait {
			R.Violation("timeout-before-deadline@"+c.script, w)
			return
		}
		if elapsed > wait+slack {
			if elapsed > wait+30*time.Second && late < slack/4 {
				R.Violation("confirmation-wait-overrun@"+c.script, w)
				return
			}
			R.Inconclusive("confirmation: timeout reported later than waiting time + slack")
		}
	case "timed-advance", "timed-late-advance":
		// The chain advanced advAfter after the message was sent: at most half of the waiting time
		// (timed-advance), or at 82-85 % of it (timed-late-advance) - in both cases before the deadline.
		w["chain_advanced_after_ms"] = float64(advAfter.Microseconds()) / 1000
		if sawAdvance {
			if sendErr != nil {
				w["err"] = sendErr.Error()
				R.Violation("confirmation-missed@"+c.script, w)
			}
			return
		}
		if sendErr == nil {
			if elapsed < advAfter {
				R.Violation("confirmed-without-advance@"+c.script, w)
			}
			return
		}
		if elapsed < wait {
			R.Violation("timeout-before-deadline@"+c.script+lifeTag(c), w)
			return
		}
		// an error although the seqno had advanced before the deadline, and nobody looked after it had
		worst := worstLateBetween(start, end)
		w["worst_scheduling_lateness_ms"] = float64(worst.Microseconds()) / 1000
		// how much lateness a correct wallet could be excused by: it had waiting time - advAfter left
		gate := wait / 10
		if c.script == "timed-late-advance" {
			gate = 4 * time.Millisecond
		}
		if worst > gate || elapsed > wait+slack {
			if !last {
				return true
			}
			if c.script == "timed-late-advance" {
				R.Count("late_advance_not_judged(machine jitter)", 1)
			} else {
				R.Inconclusive("confirmation: machine too late to judge a timeout after an advance inside the window")
			}
			return
		}
		R.Violation("timeout-although-advanced-before-deadline@"+c.script, w)
	}
	return
}

// lifeTag names the relation of message lifetime and confirmation deadline in a signature.
func lifeTag(c *sendCase) string {
	switch {
	case c.lifetimeMs != 0:
		return "/message-lifetime-shorter-than-the-wait"
	case c.rawValid != "":
		return "/valid-until-" + c.rawValid
	}
	return ""
}

func hs(h cell.Hash) []byte { return h[:] }

func randDest(r *mon.Rng) (int8, [32]byte) {
	var a [32]byte
	copy(a[:], r.Bytes(32))
	return int8(mon.Pick(r, []int{0, -1})), a
}

func sectionSends() {
	var cases []*sendCase
	idx := 0
	states := []struct {
		kind string
		k    uint32
		rich bool
	}{{"none", 0, false}, {"uninit", 0, false}, {"active", 0, false}, {"active", 1, false}, {"active", 7, false}, {"active", 1<<32 - 1, false}, {"active", 0, false}, {"frozen", 0, false},
		{"active", 0, true}, {"active", 5, true}}
	pickOpts := func(rng *mon.Rng, c *sendCase) {
		c.wc = mon.Pick(rng, []int{0, 0, -1, 1, 127})
		if rng.Bool() && c.spec.r != rwallet.V5R1 {
			c.sub = optPtrU32(uint32(rng.Uint64()))
		}
		if rng.Bool() {
			c.net = optPtrI32(mon.Pick(rng, []int32{-239, -3, 0, 1}))
		}
	}
	rounds := R.N(5, 40)
	for round := 0; round < rounds; round++ {
		for _, s := range specs {
			if !s.sends {
				continue
			}
			for si, st := range states {
				if st.rich && !(rwallet.HasNetworkID(s.r) || s.r == rwallet.V4R1 || s.r == rwallet.V4R2 || s.r == rwallet.HighloadV2R2) {
					continue // the layout has no dictionary
				}
				rng := R.Rng("send", idx)
				c := &sendCase{idx: idx, spec: s, seed: rng.Bytes(32), state: st.kind, k: st.k, rich: st.rich}
				idx++
				if si == 6 || si == 9 {
					c.k = uint32(rng.Uint64())
				}
				pickOpts(rng, c)
				cases = append(cases, c)
			}
			// several sends on one Wallet value, the account changing in between
			{
				rng := R.Rng("send", idx)
				c := &sendCase{idx: idx, spec: s, seed: rng.Bytes(32), kind: "reuse", state: "(history)"}
				idx++
				pickOpts(rng, c)
				cases = append(cases, c)
			}
			// the account state cannot be fetched
			{
				rng := R.Rng("send", idx)
				c := &sendCase{idx: idx, spec: s, seed: rng.Bytes(32), kind: "state-error"}
				idx++
				c.state = mon.Pick(rng, []string{"active", "active", "active", "uninit"})
				if c.state == "active" {
					c.k = mon.Pick(rng, []uint32{1, 7, 1<<32 - 1, uint32(rng.Uint64()) | 1})
				}
				pickOpts(rng, c)
				cases = append(cases, c)
			}
		}
	}
	nPlain := len(cases)
	// confirmation scenarios (versions with a seqno)
	confRounds := R.N(4, 30)
	for round := 0; round < confRounds; round++ {
		for _, s := range specs {
			if !s.sends || !rwallet.HasSeqno(s.r) {
				continue
			}
			type sc struct {
				script string
				at     int
				life   string // "" | "short-lifetime" (SendV2, WithMessageLifetime < wait) | "past" | "fixed-early" (RawSendV2 validUntil)
			}
			var scripts []sc
			for _, j := range []int{1, 2, 3, 4, 5, 8, 9} {
				scripts = append(scripts, sc{"advance", j, ""})
			}
			scripts = append(scripts, sc{"never", 0, ""}, sc{"never", 0, ""}, sc{"errors-then-advance", 2, ""}, sc{"errors-then-advance", 4, ""}, sc{"always-error", 0, ""},
				sc{"jump", 1, ""}, sc{"jump", 3, ""}, sc{"lagging-never", 0, ""}, sc{"lagging-then-advance", 3, ""},
				sc{"timed-advance", 0, ""}, sc{"timed-advance", 0, ""}, sc{"timed-late-advance", 0, ""},
				// validUntil before the caller's deadline: the wait is the caller's, not the message's
				sc{"advance", 1, "past"}, sc{"advance", 2, "fixed-early"}, sc{"advance", 4, "short-lifetime"},
				sc{"timed-advance", 0, "short-lifetime"}, sc{"never", 0, "short-lifetime"}, sc{"never", 0, "past"})
			for _, x := range scripts {
				rng := R.Rng("conf", idx)
				c := &sendCase{idx: idx, spec: s, seed: rng.Bytes(32), script: x.script, advanceAt: x.at}
				idx++
				c.state = mon.Pick(rng, []string{"active", "active", "none", "uninit"})
				c.waitMs = rng.Range(200, 500)
				switch x.script {
				case "jump":
					c.delta = mon.Pick(rng, []uint32{2, 3, 1000, 1 << 31})
					if c.state == "active" {
						c.k = mon.Pick(rng, []uint32{0, 1, 7, 1<<31 - 1, uint32(rng.Uint64() >> 33)})
					}
				case "lagging-never", "lagging-then-advance":
					c.state = "active"
					c.k = mon.Pick(rng, []uint32{1, 2, 7, 1<<31 - 1, 1<<32 - 2, uint32(rng.Uint64()>>33) | 1})
				default:
					if c.state == "active" {
						c.k = mon.Pick(rng, []uint32{0, 1, 7, 1<<31 - 1, 1<<32 - 2, uint32(rng.Uint64() >> 33)})
					}
				}
				switch x.script {
				case "timed-advance":
					c.waitMs = rng.Range(400, 900)
					c.advFrac = float64(rng.Range(15, 50)) / 100
				case "timed-late-advance":
					c.waitMs = rng.Range(800, 1000)
					c.advFrac = float64(rng.Range(82, 85)) / 100
				}
				c.raw = rng.Chance(1, 3)
				switch x.life {
				case "short-lifetime":
					c.raw = false
					// the message expires after 10-20 % of the wait; the chain advances later (30-50 %)
					c.lifetimeMs = c.waitMs * rng.Range(10, 20) / 100
					if x.script == "timed-advance" {
						c.advFrac = float64(rng.Range(30, 50)) / 100
					}
				case "past", "fixed-early":
					c.raw = true
					c.rawValid = x.life
				}
				c.wc = mon.Pick(rng, []int{0, -1})
				cases = append(cases, c)
			}
		}
	}
	R.Extra("plain_sends", nPlain)
	R.Extra("confirmation_sends", len(cases)-nPlain)

	stop := make(chan struct{})
	go latenessProbe(stop)
	// the confirmation cases mostly sleep: run many at once
	var wg sync.WaitGroup
	sem := make(chan struct{}, 64)
	for _, c := range cases {
		wg.Add(1)
		sem <- struct{}{}
		go func(c *sendCase) {
			defer wg.Done()
			defer func() { <-sem }()
			done := make(chan struct{})
			go func() {
				defer close(done)
				if p := mon.Guard(func() {
					for attempt := 0; attempt < 3; attempt++ {
						if !runSend(c, attempt == 2) {
							break
						}
						R.Count("timing_cases_run_again(machine was late)", 1)
					}
				}); p != nil {
					if p.Site == "?" {
						R.HarnessError("harness panic in send case %d: %s\n%s", c.idx, p.Value, mon.Trunc(p.Stack, 800))
					} else {
						R.Violation("panic@"+p.Site+"/send/"+c.spec.name, map[string]any{"panic": p.Value, "stack": mon.Trunc(p.Stack, 1500)})
					}
				}
			}()
			select {
			case <-done:
			case <-time.After(60 * time.Second):
				// §2.6: a call still parked after 60 s with a <=1 s waiting time
				buf := make([]byte, 1<<16)
				n := runtime.Stack(buf, true)
				w := c.wit()
				w["stacks"] = mon.Trunc(string(buf[:n]), 6000)
				if time.Duration(maxLateMs.Load())*time.Millisecond > 5*time.Second {
					R.Inconclusive("send did not return within 60 s on an overloaded machine")
				} else {
					R.Violation("send-never-returns/"+c.spec.name+"/"+c.script, w)
				}
			}
		}(c)
	}
	wg.Wait()
	close(stop)
	R.Extra("worst_scheduling_lateness_ms", maxLateMs.Load())
}

func main() {
	tier := "quick"
	if len(os.Args) > 1 {
		tier = os.Args[1]
	}
	R = mon.Start("C15", tier)
	R.Rule = "addresses: every (version, key, workchain, sub-wallet, network) tuple is derived by the reference (published code parsed by the reference reader + data layout + StateInit + reference hash) and through New().GetAddress, GenerateWalletAddress, hash(GenerateStateInit), hash(Wallet.StateInit); a collision map over effective tuples; the options are passed in four forms (canonical order, shuffled, workchain 0 by omission, every option twice), workchains include the boundaries of the 8-bit field and, for versions whose data does not hold the workchain, values beyond it; sends: SendV2/RawSendV2 against a scripted chain, payload decoded by the reference (destination, seqno, init, signature); account data of active accounts in the minimal layout and with non-empty plugin/extension/query dictionaries; several sends through one Wallet value while the account changes; a failing state query (whatever is sent must agree with the real account); confirmation judged on the recorded poll history: poll-count scripts (advance by 1 or by more at poll 1..5/8/9, never, a lagging node reporting a smaller seqno, errors) and a message lifetime (WithMessageLifetime, or validUntil given to RawSendV2 in the past / at a fixed early instant) shorter than the waiting time - the deadline is the caller's; wall-clock scripts (the chain advances at <=50 % resp. 82-85 % of the waiting time whoever asks; an error then is a violation unless the lateness probe saw the machine stall); non-trivial = every compared address / send; distinct = distinct addresses and distinct (version, account state, seqno, script) classes"
	R.Assume("reference wallet model harness/ref/wallet validated at start-up against real address vectors, the v5 wallet-id examples and captured network messages")
	R.Assume("V1/V2 wallets have no send implementation in the library (createSignedMsgBodyCell panics 'implement me'); send semantics are checked for V3R1..V5R1 and HighLoadV2R2, confirmation for the versions that have a seqno")
	R.Assume("frozen accounts: what is attached is recorded, not asserted (the statement is silent)")
	R.Assume("V5R1: the library does not use the sub-wallet option (documented todo); either subwallet_number 0 or the option in the 15-bit field is accepted, and the tuple is keyed by what was used")
	sc, err := rwallet.SelfCheck()
	if err != nil {
		R.HarnessError("reference wallet model failed its self-check: %v", err)
		os.Exit(R.Finish())
	}
	R.Extra("model_selfcheck", sc)
	sectionAddresses()
	sectionSends()
	os.Exit(R.Finish())
}
