// C15 — wallet address and send parameters follow from key, version and
// chain state. Oracle: harness/ref/wallet (data layouts, StateInit, address
// = reference representation hash, v5 wallet id) and a scripted blockchain
// whose account state and per-poll seqno answers are the history the send
// and confirmation results are judged against. See DESIGN.md §5 C15.
package main

import (
	"context"
	"crypto/ed25519"
	"fmt"
	"os"
	"runtime"
	"sync"
	"sync/atomic"
	"time"

	tboc "github.com/tonkeeper/tongo/boc"
	"github.com/tonkeeper/tongo/tlb"
	"github.com/tonkeeper/tongo/ton"
	twallet "github.com/tonkeeper/tongo/wallet"

	"verifharness/bridge"
	"verifharness/mon"
	rbits "verifharness/ref/bits"
	rboc "verifharness/ref/boc"
	"verifharness/ref/cell"
	rwallet "verifharness/ref/wallet"
)

var R *mon.Run

var sampleN, sendSampleN, confSampleN atomic.Int64

type verSpec struct {
	name  string
	t     twallet.Version
	r     rwallet.Version
	sends bool // the library implements sending for it
}

var specs = []verSpec{
	{"V1R1", twallet.V1R1, rwallet.V1R1, false},
	{"V1R2", twallet.V1R2, rwallet.V1R2, false},
	{"V1R3", twallet.V1R3, rwallet.V1R3, false},
	{"V2R1", twallet.V2R1, rwallet.V2R1, false},
	{"V2R2", twallet.V2R2, rwallet.V2R2, false},
	{"V3R1", twallet.V3R1, rwallet.V3R1, true},
	{"V3R2", twallet.V3R2, rwallet.V3R2, true},
	{"V4R1", twallet.V4R1, rwallet.V4R1, true},
	{"V4R2", twallet.V4R2, rwallet.V4R2, true},
	{"V5Beta", twallet.V5Beta, rwallet.V5Beta, true},
	{"V5R1", twallet.V5R1, rwallet.V5R1, true},
	{"HighLoadV2R2", twallet.HighLoadV2R2, rwallet.HighloadV2R2, true},
}

// ---------------------------------------------------------------- addresses

type tuple struct {
	ver      string
	key      [32]byte
	wc       int32
	sub, net string // effective values ("-" when the version has no such field)
}

var (
	collMu sync.Mutex
	coll   = map[string]tuple{} // "wc:hash" -> first tuple seen
)

func optPtrU32(v uint32) *uint32 { return &v }
func optPtrI32(v int32) *int32   { return &v }

type addrCase struct {
	spec verSpec
	seed []byte
	wc   int
	sub  *uint32
	net  *int32
}

func (a addrCase) wit() map[string]any {
	w := map[string]any{"version": a.spec.name, "seed": mon.Hex(a.seed), "workchain": a.wc}
	if a.sub != nil {
		w["subwallet"] = *a.sub
	}
	if a.net != nil {
		w["network"] = *a.net
	}
	return w
}

func tongoStateInitCell(si tlb.StateInit) (*tboc.Cell, error) {
	c := tboc.NewCell()
	err := tlb.Marshal(c, si)
	return c, err
}

func checkAddress(a addrCase) {
	w := a.wit()
	s := a.spec
	priv := ed25519.NewKeyFromSeed(a.seed)
	pub := priv.Public().(ed25519.PublicKey)
	rp := rwallet.Params{Ver: s.r, Workchain: int32(a.wc), SubWallet: a.sub, NetworkID: a.net}
	copy(rp.PubKey[:], pub)
	v5r1Sub := s.r == rwallet.V5R1 && a.sub != nil
	if v5r1Sub {
		// the library documents that the sub-wallet option is not used for this version
		// ("todo: add options to configure wallet id"); the reference follows the spec with
		// subwallet_number = 0 and, alternatively, with the option in the 15-bit field.
		rp.SubWallet = nil
	}
	want, err := rwallet.Address(rp)
	if err != nil {
		R.HarnessError("reference address: %v", err)
		return
	}
	var alt *cell.Hash
	if v5r1Sub {
		rp2 := rp
		x := *a.sub & 0x7fff
		rp2.SubWallet = &x
		if h, err := rwallet.Address(rp2); err == nil {
			alt = &h
		}
	}
	refSI, _ := rwallet.InitialState(rp)

	opts := []twallet.Option{twallet.WithWorkchain(a.wc)}
	if a.sub != nil {
		opts = append(opts, twallet.WithSubWalletID(*a.sub))
	}
	if a.net != nil {
		opts = append(opts, twallet.WithNetworkGlobalID(*a.net))
	}
	var a1, a2 ton.AccountID
	var si tlb.StateInit
	var si2 *tlb.StateInit
	var e1, e2, e3, e4 error
	p := mon.Guard(func() {
		var wal twallet.Wallet
		wal, e1 = twallet.New(priv, s.t, nil, opts...)
		if e1 == nil {
			a1 = wal.GetAddress()
			si2, e4 = wal.StateInit()
		}
		a2, e2 = twallet.GenerateWalletAddress(pub, s.t, a.net, a.wc, a.sub)
		si, e3 = twallet.GenerateStateInit(pub, s.t, a.net, a.wc, a.sub)
	})
	if p != nil {
		w["panic"], w["stack"] = p.Value, mon.Trunc(p.Stack, 1200)
		R.Violation("panic@"+p.Site+"/address/"+s.name, w)
		return
	}
	if e1 != nil || e2 != nil || e3 != nil || e4 != nil {
		w["err"] = fmt.Sprint(e1, e2, e3, e4)
		R.Violation("error@address-api/"+s.name, w)
		return
	}
	R.Eval("addr/" + s.name + string(want[:8]))
	R.Count("addresses", 1)
	cls := fmt.Sprintf("%s/wc=%d/sub=%v/net=%v", s.name, a.wc, a.sub != nil, a.net != nil)
	R.Seen("address_classes", cls)

	matches := func(h [32]byte) bool { return h == want || (alt != nil && h == *alt) }
	if int(a1.Workchain) != a.wc || int(a2.Workchain) != a.wc {
		w["got_wc"] = []int32{a1.Workchain, a2.Workchain}
		R.Violation("workchain-mismatch/"+s.name, w)
		return
	}
	if a1.Address != a2.Address {
		w["new"], w["generate"] = mon.Hex(a1.Address[:]), mon.Hex(a2.Address[:])
		R.Violation("apis-disagree@New-vs-GenerateWalletAddress/"+s.name, w)
		return
	}
	for i, x := range []*tlb.StateInit{&si, si2} {
		api := []string{"GenerateStateInit", "Wallet.StateInit"}[i]
		var sc *tboc.Cell
		var th tlb.Bits256
		var herr error
		var rc *cell.Cell
		if p := mon.Guard(func() {
			if sc, herr = tongoStateInitCell(*x); herr == nil {
				th, herr = sc.Hash256()
				rc = bridge.FromTongo(sc)
			}
		}); p != nil || herr != nil {
			w["err"] = fmt.Sprint(herr, p)
			R.Violation("error@marshal-state-init/"+s.name, w)
			return
		}
		if rc.Hash() != [32]byte(a1.Address) || [32]byte(th) != [32]byte(a1.Address) {
			w["api"], w["state_init_hash"], w["address"] = api, mon.Hex(th[:]), mon.Hex(a1.Address[:])
			R.Violation("apis-disagree@hash("+api+")-vs-address/"+s.name, w)
			return
		}
		// structure against the reference, for a precise verdict
		if i == 0 && !matches(a1.Address) {
			parts, perr := rwallet.ParseStateInit(rc)
			refParts, _ := rwallet.ParseStateInit(refSI)
			switch {
			case perr != nil || parts.Code == nil || parts.Data == nil || parts.Library != nil || parts.SplitDepth != nil || parts.Special != nil:
				w["err"] = fmt.Sprint(perr)
				R.Violation("address-mismatch@state-init-shape/"+s.name, w)
			case parts.Code.Hash() != refParts.Code.Hash():
				R.Violation("address-mismatch@code-not-the-published-code/"+s.name, w)
			case !rbits.Equal(parts.Data.Bits, refParts.Data.Bits) || len(parts.Data.Refs) != 0:
				w["data"], w["want_data"] = rbits.FiftHex(parts.Data.Bits), rbits.FiftHex(refParts.Data.Bits)
				f := "data-layout"
				if v5r1Sub || s.r == rwallet.V5R1 {
					f = "data-layout(wallet-id)"
				}
				R.Violation("address-mismatch@"+f+"/"+s.name+fmt.Sprintf("/wc=%d", a.wc), w)
			default:
				R.Violation("address-mismatch@hash/"+s.name, w)
			}
			return
		}
	}
	if v5r1Sub {
		if a1.Address == want && (alt == nil || *alt != want) {
			R.Seen("observed", "V5R1 ignores WithSubWalletID (wallet id always built with subwallet_number 0)")
		}
	}

	if sampleN.Add(1)%9001 == 1 {
		sw := a.wit()
		sw["kind"], sw["address"], sw["apis_agree"] = "address", fmt.Sprintf("%d:%x", a1.Workchain, a1.Address), true
		R.Sample(sw)
	}

	// collision map over effective tuples
	t := tuple{ver: s.name, wc: int32(a.wc), sub: "-", net: "-"}
	copy(t.key[:], pub)
	if rwallet.HasSubWallet(s.r) {
		t.sub = fmt.Sprint(rp.SubWalletOf())
		if v5r1Sub && alt != nil && a1.Address == *alt && *alt != want {
			t.sub = fmt.Sprint(*a.sub & 0x7fff)
		}
	}
	if rwallet.HasNetworkID(s.r) {
		t.net = fmt.Sprint(rp.NetworkOf())
	}
	k := fmt.Sprintf("%d:%x", a1.Workchain, a1.Address)
	collMu.Lock()
	prev, seen := coll[k]
	if !seen {
		coll[k] = t
	}
	collMu.Unlock()
	if seen && prev != t {
		w["other"] = fmt.Sprintf("%+v", prev)
		w["this"] = fmt.Sprintf("%+v", t)
		R.Violation("address-collision/"+s.name+"-"+prev.ver, w)
	}
}

func sectionAddresses() {
	nKeys := R.N(50, 400)
	wcs := []int{0, -1, 1, 127}
	nets := []*int32{nil, optPtrI32(-239), optPtrI32(-3), optPtrI32(0), optPtrI32(1)}
	var cases []addrCase
	for ki := 0; ki < nKeys; ki++ {
		rng := R.Rng("key", ki)
		seed := rng.Bytes(32)
		subs := []*uint32{nil, optPtrU32(0), optPtrU32(1), optPtrU32(rwallet.DefaultSubWalletBase), optPtrU32(1<<32 - 1), optPtrU32(uint32(rng.Uint64()))}
		for _, s := range specs {
			for _, wc := range wcs {
				switch {
				case !rwallet.HasSubWallet(s.r):
					cases = append(cases, addrCase{s, seed, wc, nil, nil})
					if rng.Chance(1, 4) { // options without meaning for the version must not matter
						cases = append(cases, addrCase{s, seed, wc, mon.Pick(rng, subs), mon.Pick(rng, nets)})
					}
				case s.r == rwallet.V5Beta:
					for _, sub := range subs {
						for _, net := range nets {
							cases = append(cases, addrCase{s, seed, wc, sub, net})
						}
					}
				case s.r == rwallet.V5R1:
					for _, net := range nets {
						cases = append(cases, addrCase{s, seed, wc, nil, net})
						cases = append(cases, addrCase{s, seed, wc, optPtrU32(uint32(rng.Range(1, 0x7fff))), net})
					}
				default:
					for _, sub := range subs {
						var net *int32
						if rng.Chance(1, 4) {
							net = mon.Pick(rng, nets)
						}
						cases = append(cases, addrCase{s, seed, wc, sub, net})
					}
				}
			}
		}
	}
	parallel(len(cases), func(i int) { checkAddress(cases[i]) })
	R.Extra("address_tuples", len(cases))
	collMu.Lock()
	R.Extra("distinct_addresses", len(coll))
	collMu.Unlock()
	// the published code is what the library ships
	for _, s := range specs {
		var th tlb.Bits256
		if p := mon.Guard(func() { th = twallet.GetCodeHashByVer(s.t) }); p != nil {
			R.Violation("panic@"+p.Site+"/GetCodeHashByVer/"+s.name, map[string]any{"panic": p.Value})
			continue
		}
		R.Eval("code/" + s.name)
		if [32]byte(th) != rwallet.Code(s.r).Hash() {
			R.Violation("code-not-the-published-code/"+s.name, map[string]any{"got": mon.Hex(th[:])})
		}
	}
}

func parallel(n int, f func(i int)) {
	par := runtime.GOMAXPROCS(0)
	if par > 16 {
		par = 16
	}
	var wg sync.WaitGroup
	var next int64 = -1
	for g := 0; g < par; g++ {
		wg.Add(1)
		go func() {
			defer wg.Done()
			for {
				i := int(atomic.AddInt64(&next, 1))
				if i >= n {
					return
				}
				if p := mon.Guard(func() { f(i) }); p != nil {
					if p.Site == "?" {
						R.HarnessError("harness panic: %s\n%s", p.Value, mon.Trunc(p.Stack, 800))
					} else {
						R.Violation("panic@"+p.Site, map[string]any{"panic": p.Value, "stack": mon.Trunc(p.Stack, 1500)})
					}
				}
			}
		}()
	}
	wg.Wait()
}

// ------------------------------------------------------- scripted blockchain

type poll struct {
	N     int
	AtMs  float64
	Value uint32
	Err   bool
	Addr  string
}

type chain struct {
	mu       sync.Mutex
	state    tlb.ShardAccount
	stateErr error
	sent     [][]byte
	sentAt   []time.Time
	stateQ   []ton.AccountID
	polls    []poll
	script   func(n int) (uint32, error) // n = 1-based poll number
	t0       time.Time
}

func (c *chain) GetSeqno(ctx context.Context, a ton.AccountID) (uint32, error) {
	c.mu.Lock()
	defer c.mu.Unlock()
	n := len(c.polls) + 1
	var v uint32
	var err error
	if c.script != nil {
		v, err = c.script(n)
	} else {
		err = fmt.Errorf("scripted: unexpected GetSeqno")
	}
	c.polls = append(c.polls, poll{N: n, AtMs: float64(time.Since(c.t0).Microseconds()) / 1000, Value: v, Err: err != nil, Addr: a.ToRaw()})
	return v, err
}
func (c *chain) SendMessage(ctx context.Context, payload []byte) (uint32, error) {
	c.mu.Lock()
	c.sent = append(c.sent, append([]byte(nil), payload...))
	c.sentAt = append(c.sentAt, time.Now())
	c.mu.Unlock()
	return 0, nil
}
func (c *chain) GetAccountState(ctx context.Context, a ton.AccountID) (tlb.ShardAccount, error) {
	c.mu.Lock()
	c.stateQ = append(c.stateQ, a)
	c.mu.Unlock()
	return c.state, c.stateErr
}

// accountState builds what the chain reports for the wallet.
func accountState(kind string, s verSpec, rp rwallet.Params, addr ton.AccountID, seqno uint32) (tlb.ShardAccount, error) {
	var sa tlb.ShardAccount
	if kind == "none" {
		sa.Account.SumType = "AccountNone"
		return sa, nil
	}
	sa.Account.SumType = "Account"
	sa.Account.Account.Addr = addr.ToMsgAddress()
	sa.Account.Account.Storage.Balance.Grams = 1_000_000_000
	st := &sa.Account.Account.Storage.State
	switch kind {
	case "uninit":
		st.SumType = "AccountUninit"
	case "frozen":
		st.SumType = "AccountFrozen"
		st.AccountFrozen.StateHash = addr.Address
	case "active":
		st.SumType = "AccountActive"
		data, err := rwallet.DataCell(rp, seqno)
		if err != nil {
			return sa, err
		}
		// on-chain data and code come from the reference model, delivered through a BOC
		cs, _, err := bridge.ToTongoParsed([]*cell.Cell{rwallet.Code(s.r), data}, rboc.Options{})
		if err != nil || len(cs) != 2 {
			return sa, fmt.Errorf("delivering reference state: %v", err)
		}
		si := &st.AccountActive.StateInit
		si.Code.Exists, si.Code.Value.Value = true, *cs[0]
		si.Data.Exists, si.Data.Value.Value = true, *cs[1]
	}
	return sa, nil
}

// ------------------------------------------------------------ send semantics

type sendCase struct {
	idx   int
	spec  verSpec
	seed  []byte
	wc    int
	sub   *uint32
	net   *int32
	state string
	k     uint32
	raw   bool // confirmation through RawSendV2 instead of SendV2
	// confirmation script
	script    string // "" | advance | never | errors-then-advance | always-error
	advanceAt int
	waitMs    int
}

func (c *sendCase) wit() map[string]any {
	w := map[string]any{"case": c.idx, "version": c.spec.name, "seed": mon.Hex(c.seed), "workchain": c.wc, "account_state": c.state, "stored_seqno": c.k}
	if c.sub != nil {
		w["subwallet"] = *c.sub
	}
	if c.net != nil {
		w["network"] = *c.net
	}
	if c.script != "" {
		w["script"], w["advance_at_poll"], w["wait_ms"] = c.script, c.advanceAt, c.waitMs
	}
	return w
}

var maxLateMs atomic.Int64

func latenessProbe(stop <-chan struct{}) {
	for {
		select {
		case <-stop:
			return
		default:
		}
		t := time.Now()
		time.Sleep(5 * time.Millisecond)
		late := time.Since(t).Milliseconds() - 5
		for {
			cur := maxLateMs.Load()
			if late <= cur || maxLateMs.CompareAndSwap(cur, late) {
				break
			}
		}
	}
}

func runSend(c *sendCase) {
	w := c.wit()
	s := c.spec
	priv := ed25519.NewKeyFromSeed(c.seed)
	pub := priv.Public().(ed25519.PublicKey)
	rp := rwallet.Params{Ver: s.r, Workchain: int32(c.wc), SubWallet: c.sub, NetworkID: c.net}
	copy(rp.PubKey[:], pub)
	opts := []twallet.Option{twallet.WithWorkchain(c.wc)}
	if c.sub != nil {
		opts = append(opts, twallet.WithSubWalletID(*c.sub))
	}
	if c.net != nil {
		opts = append(opts, twallet.WithNetworkGlobalID(*c.net))
	}
	ch := &chain{}
	wal, err := twallet.New(priv, s.t, ch, opts...)
	if err != nil {
		w["err"] = err.Error()
		R.Violation("error@wallet.New/"+s.name, w)
		return
	}
	addr := wal.GetAddress()
	wantAddr, err := rwallet.Address(rp)
	if err != nil {
		R.HarnessError("reference address: %v", err)
		return
	}
	if ch.state, err = accountState(c.state, s, rp, addr, c.k); err != nil {
		R.HarnessError("account state: %v", err)
		return
	}
	hasSeq := rwallet.HasSeqno(s.r)
	stored := uint32(0)
	if c.state == "active" && hasSeq {
		stored = c.k
	}
	wait := time.Duration(c.waitMs) * time.Millisecond
	switch c.script {
	case "advance":
		ch.script = func(n int) (uint32, error) {
			if n >= c.advanceAt {
				return stored + 1, nil
			}
			return stored, nil
		}
	case "never":
		ch.script = func(n int) (uint32, error) { return stored, nil }
	case "errors-then-advance":
		ch.script = func(n int) (uint32, error) {
			if n < c.advanceAt {
				return 0, fmt.Errorf("scripted: lite server unavailable")
			}
			return stored + 1, nil
		}
	case "always-error":
		ch.script = func(n int) (uint32, error) { return 0, fmt.Errorf("scripted: lite server unavailable") }
	}

	dw, dest := randDest(R.Rng("dest", c.idx))
	transfer := twallet.SimpleTransfer{Amount: 12345, Address: ton.AccountID{Workchain: int32(dw), Address: dest}, Comment: "c15"}
	var sendErr error
	ch.t0 = time.Now()
	start := time.Now()
	p := mon.Guard(func() {
		if c.raw {
			im, mode, e := transfer.ToInternal()
			if e != nil {
				sendErr = e
				return
			}
			mc := tboc.NewCell()
			if e := tlb.Marshal(mc, im); e != nil {
				sendErr = e
				return
			}
			_, sendErr = wal.RawSendV2(context.Background(), stored, time.Now().Add(time.Minute), []twallet.RawMessage{{Message: mc, Mode: mode}}, nil, wait)
			return
		}
		_, sendErr = wal.SendV2(context.Background(), wait, transfer)
	})
	elapsed := time.Since(start)
	if p != nil {
		w["panic"], w["stack"] = p.Value, mon.Trunc(p.Stack, 1200)
		R.Violation("panic@"+p.Site+"/SendV2/"+s.name+"/"+c.state, w)
		return
	}
	ch.mu.Lock()
	sent := ch.sent
	polls := append([]poll(nil), ch.polls...)
	stateQ := ch.stateQ
	ch.mu.Unlock()
	w["polls"] = polls
	w["elapsed_ms"] = elapsed.Milliseconds()
	w["result"] = fmt.Sprint(sendErr)

	fp := fmt.Sprintf("send/%s/%s/k=%d/raw=%v/%s@%d/wc=%d", s.name, c.state, c.k, c.raw, c.script, c.advanceAt, c.wc)
	R.Eval(fp)
	R.Seen("send_classes", fmt.Sprintf("%s/%s", s.name, c.state))
	R.Count("sends", 1)

	// --- what was sent ---
	if len(sent) != 1 {
		w["captured"] = len(sent)
		R.Violation("payload-count@"+c.state+"/"+s.name, w)
		return
	}
	if !c.raw && (len(stateQ) != 1 || stateQ[0] != addr) {
		w["state_queries"] = fmt.Sprint(stateQ)
		R.Violation("account-state-asked-for-another-account/"+s.name, w)
		return
	}
	w["payload"] = mon.HexTrunc(sent[0], 2000)
	roots, _, _, rerr := rboc.Read(sent[0])
	if rerr != nil || len(roots) != 1 {
		w["err"] = fmt.Sprint(rerr)
		R.Violation("invalid-boc@payload/"+s.name, w)
		return
	}
	ext, rerr := rwallet.ParseExtIn(roots[0])
	if rerr != nil {
		w["err"] = rerr.Error()
		R.Violation("not-an-external-message@payload/"+s.name, w)
		return
	}
	if int(ext.DestWC) != c.wc || ext.Dest != wantAddr || addr.Address != tlb.Bits256(wantAddr) {
		w["dest"] = fmt.Sprintf("%d:%x", ext.DestWC, ext.Dest)
		w["want"] = fmt.Sprintf("%d:%x", c.wc, wantAddr)
		R.Violation("destination-is-not-the-wallet/"+s.name, w)
		return
	}
	if ext.ImportFee.Sign() != 0 {
		R.Violation("import-fee-set/"+s.name, w)
		return
	}
	req, derr := rwallet.Decode(s.r, ext.Body)
	if derr != nil {
		w["err"] = derr.Error()
		R.Violation("undecodable-body@reference/"+s.name, w)
		return
	}
	if !rwallet.Verify(s.r, ext.Body, pub) {
		R.Violation("bad-signature@reference-verifier/"+s.name, w)
		return
	}
	if !c.raw {
		if hasSeq && req.Seqno != stored && c.state != "frozen" {
			w["body_seqno"], w["want"] = req.Seqno, stored
			R.Violation(fmt.Sprintf("seqno-mismatch@%s/%s", c.state, s.name), w)
			return
		}
		switch c.state {
		case "none", "uninit":
			if ext.Init == nil {
				R.Violation("init-missing@"+c.state+"/"+s.name, w)
				return
			}
			if ext.Init.Cell().Hash() != wantAddr {
				w["init_hash"] = mon.Hex(hs(ext.Init.Cell().Hash()))
				R.Violation("init-does-not-hash-to-address@"+c.state+"/"+s.name, w)
				return
			}
		case "active":
			if ext.Init != nil {
				R.Violation("init-attached@active/"+s.name, w)
				return
			}
		case "frozen":
			R.Seen("observed", fmt.Sprintf("frozen account: init attached=%v (not asserted)", ext.Init != nil))
		}
		if len(req.Msgs) != 1 || req.Msgs[0].Mode != 3 {
			w["messages"] = len(req.Msgs)
			R.Violation("transfer-missing/"+s.name, w)
			return
		}
		im, ierr := rwallet.ParseInt(req.Msgs[0].Msg)
		if ierr != nil || im.DestWC != dw || im.Dest != dest || im.Amount.Uint64() != 12345 {
			w["err"] = fmt.Sprint(ierr)
			R.Violation("transfer-differs/"+s.name, w)
			return
		}
	}

	if (c.script == "" && sendSampleN.Add(1)%150 == 1) || (c.script != "" && confSampleN.Add(1)%100 == 1) {
		R.Sample(map[string]any{"kind": "send", "version": s.name, "account_state": c.state, "stored_seqno": stored, "body_seqno": req.Seqno,
			"init_attached": ext.Init != nil, "script": c.script, "advance_at_poll": c.advanceAt, "wait_ms": c.waitMs, "polls": len(polls),
			"elapsed_ms": elapsed.Milliseconds(), "result": fmt.Sprint(sendErr)})
	}

	// --- confirmation ---
	if c.script == "" {
		if sendErr != nil {
			w["err"] = sendErr.Error()
			R.Violation("error@send-without-confirmation/"+s.name+"/"+c.state, w)
		}
		if len(polls) != 0 {
			R.Violation("polls-without-confirmation-request/"+s.name, w)
		}
		return
	}
	R.Seen("confirmation_scripts", fmt.Sprintf("%s@%d", c.script, c.advanceAt))
	R.Count("confirmation_runs", 1)
	for _, pl := range polls {
		if pl.Addr != addr.ToRaw() {
			R.Violation("seqno-asked-for-another-account/"+s.name, w)
			return
		}
	}
	const slack = 2 * time.Second
	late := time.Duration(maxLateMs.Load()) * time.Millisecond
	sawAdvance := false
	for _, pl := range polls {
		if !pl.Err && pl.Value > stored {
			sawAdvance = true
		}
	}
	switch c.script {
	case "advance", "errors-then-advance":
		if sawAdvance {
			// the wallet was told, with a nil error, that the seqno is past the one it used
			if sendErr != nil {
				w["err"] = sendErr.Error()
				R.Violation("confirmation-missed@"+c.script, w)
			}
			return
		}
		// it never got as far as poll advanceAt
		if late > slack/4 || elapsed > wait+slack {
			R.Inconclusive("confirmation: machine too slow to reach the scripted poll")
			return
		}
		// the scripted advance never happened in this run's history (poll cadence is not part of the statement)
		R.Count("advance_poll_not_reached", 1)
	case "never", "always-error":
		if sendErr == nil {
			R.Violation("confirmed-without-advance@"+c.script, w)
			return
		}
		if elapsed < wait {
			R.Violation("timeout-before-deadline@"+c.script, w)
			return
		}
		if elapsed > wait+slack {
			if elapsed > wait+30*time.Second && late < slack/4 {
				R.Violation("confirmation-wait-overrun@"+c.script, w)
				return
			}
			R.Inconclusive("confirmation: timeout reported later than waiting time + slack")
		}
	}
}

func hs(h cell.Hash) []byte { return h[:] }

func randDest(r *mon.Rng) (int8, [32]byte) {
	var a [32]byte
	copy(a[:], r.Bytes(32))
	return int8(mon.Pick(r, []int{0, -1})), a
}

func sectionSends() {
	var cases []*sendCase
	idx := 0
	states := []struct {
		kind string
		k    uint32
	}{{"none", 0}, {"uninit", 0}, {"active", 0}, {"active", 1}, {"active", 7}, {"active", 1<<32 - 1}, {"active", 0}, {"frozen", 0}}
	rounds := R.N(5, 40)
	for round := 0; round < rounds; round++ {
		for _, s := range specs {
			if !s.sends {
				continue
			}
			for si, st := range states {
				rng := R.Rng("send", idx)
				c := &sendCase{idx: idx, spec: s, seed: rng.Bytes(32), state: st.kind, k: st.k}
				idx++
				if si == 6 {
					c.k = uint32(rng.Uint64())
				}
				c.wc = mon.Pick(rng, []int{0, 0, -1, 1, 127})
				if rng.Bool() && s.r != rwallet.V5R1 {
					c.sub = optPtrU32(uint32(rng.Uint64()))
				}
				if rng.Bool() {
					c.net = optPtrI32(mon.Pick(rng, []int32{-239, -3, 0, 1}))
				}
				cases = append(cases, c)
			}
		}
	}
	nPlain := len(cases)
	// confirmation scenarios (versions with a seqno)
	confRounds := R.N(4, 30)
	for round := 0; round < confRounds; round++ {
		for _, s := range specs {
			if !s.sends || !rwallet.HasSeqno(s.r) {
				continue
			}
			type sc struct {
				script string
				at     int
			}
			var scripts []sc
			for j := 1; j <= 5; j++ {
				scripts = append(scripts, sc{"advance", j})
			}
			scripts = append(scripts, sc{"never", 0}, sc{"never", 0}, sc{"errors-then-advance", 2}, sc{"errors-then-advance", 4}, sc{"always-error", 0})
			for _, x := range scripts {
				rng := R.Rng("conf", idx)
				c := &sendCase{idx: idx, spec: s, seed: rng.Bytes(32), script: x.script, advanceAt: x.at}
				idx++
				c.state = mon.Pick(rng, []string{"active", "active", "none", "uninit"})
				if c.state == "active" {
					c.k = mon.Pick(rng, []uint32{0, 1, 7, 1<<31 - 1, 1<<32 - 2, uint32(rng.Uint64() >> 33)})
				}
				c.raw = rng.Chance(1, 3)
				c.waitMs = rng.Range(200, 500)
				c.wc = mon.Pick(rng, []int{0, -1})
				cases = append(cases, c)
			}
		}
	}
	R.Extra("plain_sends", nPlain)
	R.Extra("confirmation_sends", len(cases)-nPlain)

	stop := make(chan struct{})
	go latenessProbe(stop)
	// the confirmation cases mostly sleep: run many at once
	var wg sync.WaitGroup
	sem := make(chan struct{}, 64)
	for _, c := range cases {
		wg.Add(1)
		sem <- struct{}{}
		go func(c *sendCase) {
			defer wg.Done()
			defer func() { <-sem }()
			done := make(chan struct{})
			go func() {
				defer close(done)
				if p := mon.Guard(func() { runSend(c) }); p != nil {
					if p.Site == "?" {
						R.HarnessError("harness panic in send case %d: %s\n%s", c.idx, p.Value, mon.Trunc(p.Stack, 800))
					} else {
						R.Violation("panic@"+p.Site+"/send/"+c.spec.name, map[string]any{"panic": p.Value, "stack": mon.Trunc(p.Stack, 1500)})
					}
				}
			}()
			select {
			case <-done:
			case <-time.After(60 * time.Second):
				// §2.6: a call still parked after 60 s with a <=500 ms waiting time
				buf := make([]byte, 1<<16)
				n := runtime.Stack(buf, true)
				w := c.wit()
				w["stacks"] = mon.Trunc(string(buf[:n]), 6000)
				if time.Duration(maxLateMs.Load())*time.Millisecond > 5*time.Second {
					R.Inconclusive("send did not return within 60 s on an overloaded machine")
				} else {
					R.Violation("send-never-returns/"+c.spec.name+"/"+c.script, w)
				}
			}
		}(c)
	}
	wg.Wait()
	close(stop)
	R.Extra("worst_scheduling_lateness_ms", maxLateMs.Load())
}

func main() {
	tier := "quick"
	if len(os.Args) > 1 {
		tier = os.Args[1]
	}
	R = mon.Start("C15", tier)
	R.Rule = "addresses: every (version, key, workchain, sub-wallet, network) tuple is derived by the reference (published code parsed by the reference reader + data layout + StateInit + reference hash) and through New().GetAddress, GenerateWalletAddress, hash(GenerateStateInit), hash(Wallet.StateInit); a collision map over effective tuples; sends: SendV2/RawSendV2 against a scripted chain, payload decoded by the reference (destination, seqno, init, signature), confirmation judged on the recorded poll history; non-trivial = every compared address / send; distinct = distinct addresses and distinct (version, account state, seqno, script) classes"
	R.Assume("reference wallet model harness/ref/wallet validated at start-up against real address vectors, the v5 wallet-id examples and captured network messages")
	R.Assume("V1/V2 wallets have no send implementation in the library (createSignedMsgBodyCell panics 'implement me'); send semantics are checked for V3R1..V5R1 and HighLoadV2R2, confirmation for the versions that have a seqno")
	R.Assume("frozen accounts: what is attached is recorded, not asserted (the statement is silent)")
	R.Assume("V5R1: the library does not use the sub-wallet option (documented todo); either subwallet_number 0 or the option in the 15-bit field is accepted, and the tuple is keyed by what was used")
	sc, err := rwallet.SelfCheck()
	if err != nil {
		R.HarnessError("reference wallet model failed its self-check: %v", err)
		os.Exit(R.Finish())
	}
	R.Extra("model_selfcheck", sc)
	sectionAddresses()
	sectionSends()
	os.Exit(R.Finish())
}
