#!/bin/bash
# regenerate the type registry from the tongo tree under check
set -e
go run ./cmd/genregistry "$1" reg/registry_gen.go
