// C04 — TL-B encodings are bit-exact with the TON schemas.
// (1) primitives and combinators against an independent bit-list encoder,
// exhaustively over widths; (2) core block.tlb structures over random values
// against reference encoders transcribed from block.tlb; (3) every
// transaction and message of the real blocks re-encoded and compared by hash
// with its source cell wherever the encoding is unique. See DESIGN.md §5 C04.
package main

import (
	"bytes"
	"fmt"
	"math/big"
	"os"
	"path/filepath"
	"reflect"
	"regexp"
	"strconv"
	"strings"

	"github.com/tonkeeper/tongo/boc"
	"github.com/tonkeeper/tongo/tlb"
	"github.com/tonkeeper/tongo/ton"
	"github.com/tonkeeper/tongo/wallet"

	"verifharness/bridge"
	"verifharness/mon"
	rb "verifharness/ref/bits"
	rboc "verifharness/ref/boc"
	"verifharness/ref/cell"
	"verifharness/reg"
)

var R *mon.Run

// marshal runs tlb.Marshal under the panic monitor and returns the cell.
func marshal(sig string, v any, wit map[string]any) *boc.Cell {
	c := boc.NewCell()
	var err error
	if p := mon.Guard(func() { err = tlb.Marshal(c, v) }); p != nil {
		wit["panic"] = p.Value
		R.Violation("panic@Marshal/"+sig, wit)
		return nil
	}
	if err != nil {
		wit["err"] = err.Error()
		R.Violation("error@Marshal/"+sig, wit)
		return nil
	}
	return c
}

// expect compares a tongo cell with a reference cell (bits + refs, recursively).
func expect(sig string, got *boc.Cell, want *cell.Cell, wit map[string]any) bool {
	if got == nil {
		return false
	}
	if d := bridge.Diff(got, want); d != "" {
		wit["diff"] = d
		wit["got_bits"] = mon.Trunc(rb.String(bridge.Bits(got.RawBitString())), 600)
		wit["want_bits"] = mon.Trunc(rb.String(want.Bits), 600)
		R.Violation("bits-mismatch@"+sig, wit)
		return false
	}
	// where the tree holds exotic cells the representation hash is compared as well (the type of a
	// cell is part of d1). Trees with a pruned branch are compared structurally only: tongo's
	// in-memory builder keeps no level mask for the cells above it (C02's business).
	if ex, pruned := exoticIn(want); ex && !pruned {
		var h []byte
		var err error
		if p := mon.Guard(func() { h, err = got.Hash() }); p != nil || err != nil {
			wit["err"] = fmt.Sprint(err, p)
			R.Violation("hash-failed@"+sig, wit)
			return false
		}
		wh := want.Hash()
		R.Count("exotic_trees_hash_compared", 1)
		if !bytes.Equal(h, wh[:]) {
			wit["got_hash"], wit["want_hash"] = mon.Hex(h), mon.Hex(wh[:])
			R.Violation("hash-mismatch@"+sig, wit)
			return false
		}
	}
	return true
}

// exoticIn reports whether the tree holds an exotic cell / a pruned branch.
func exoticIn(c *cell.Cell) (exotic, pruned bool) {
	cell.Walk(c, func(x *cell.Cell) {
		if x.Exotic {
			exotic = true
			if x.Type() == cell.PrunedBranch {
				pruned = true
			}
		}
	})
	return
}

func cat(parts ...[]bool) []bool {
	var out []bool
	for _, p := range parts {
		out = append(out, p...)
	}
	return out
}

// ---------------------------------------------------------------- (1) primitives

var reInt = regexp.MustCompile(`^tlb\.(Uint|Int)(\d+)$`)
var reVar = regexp.MustCompile(`^tlb\.VarUInteger(\d+)$`)
var reBits = regexp.MustCompile(`^tlb\.Bits(\d+)$`)

func sectionPrimitives() {
	for _, e := range reg.Types() {
		if m := reInt.FindStringSubmatch(e.Name); m != nil {
			n, _ := strconv.Atoi(m[2])
			signed := m[1] == "Int"
			for k := 0; k < 14; k++ {
				g := reg.NewGen(R.Rng("prim/"+e.Name, k))
				g.Bound = k
				v := g.New(e.Type)
				var want []bool
				var shown string
				switch {
				case v.Kind() >= reflect.Uint && v.Kind() <= reflect.Uint64:
					want, shown = rb.UintBits(v.Uint(), n), fmt.Sprint(v.Uint())
				case v.Kind() >= reflect.Int && v.Kind() <= reflect.Int64:
					want, shown = rb.IntBits(v.Int(), n), fmt.Sprint(v.Int())
				default: // big.Int based
					x := bigOf(v)
					want, shown = rb.BigBits(x, n), x.String()
				}
				wit := map[string]any{"type": e.Name, "value": shown, "signed": signed}
				R.Eval("prim/" + e.Name + "/" + shown)
				expect("primitive/"+m[1]+"N", marshal(e.Name, v.Interface(), wit), cell.New(want, false), wit)
				R.Seen("primitive_types", e.Name)
			}
			continue
		}
		if m := reVar.FindStringSubmatch(e.Name); m != nil {
			n, _ := strconv.Atoi(m[1])
			lenBits := rb.LimWidth(uint64(n - 1))
			for bytesN := 0; bytesN < n; bytesN++ {
				for k := 0; k < 3; k++ {
					rng := R.Rng("var/"+e.Name, bytesN*3+k)
					b := rng.Bytes(bytesN)
					if bytesN > 0 {
						switch k {
						case 0:
							b[0] |= 0x80 // full length
						case 1:
							for i := range b {
								b[i] = 0xff
							}
						case 2:
							b[0] = 1
							for i := 1; i < len(b); i++ {
								b[i] = 0
							}
						}
					}
					x := new(big.Int).SetBytes(b)
					v := reflect.New(e.Type).Elem()
					setBig(v, x)
					// minimal byte length of the value
					min := (x.BitLen() + 7) / 8
					want := cat(rb.UintBits(uint64(min), lenBits), rb.BigBits(x, 8*min))
					wit := map[string]any{"type": e.Name, "value": x.String(), "bytes": min}
					R.Eval(fmt.Sprintf("var/%s/%d/%d", e.Name, bytesN, k))
					expect("primitive/VarUInteger", marshal(e.Name, v.Interface(), wit), cell.New(want, false), wit)
					R.Seen("primitive_types", e.Name)
				}
			}
			continue
		}
		if m := reBits.FindStringSubmatch(e.Name); m != nil {
			n, _ := strconv.Atoi(m[1])
			for k := 0; k < 4; k++ {
				g := reg.NewGen(R.Rng("bits/"+e.Name, k))
				g.Bound = k
				v := g.New(e.Type)
				raw := make([]byte, v.Len())
				reflect.Copy(reflect.ValueOf(raw), v)
				wit := map[string]any{"type": e.Name, "value": mon.Hex(raw)}
				R.Eval(fmt.Sprintf("bits/%s/%d", e.Name, k))
				expect("primitive/BitsN", marshal(e.Name, v.Interface(), wit), cell.New(rb.BytesBits(raw)[:n], false), wit)
				R.Seen("primitive_types", e.Name)
			}
		}
	}
	// Go kinds used directly in structs
	for k := 0; k < 14; k++ {
		g := reg.NewGen(R.Rng("kinds", k))
		g.Bound = k
		type kinds struct {
			A uint8
			B int8
			C uint16
			D int16
			E uint32
			F int32
			G uint64
			H int64
			I bool
			J [5]byte
		}
		v := g.New(reflect.TypeOf(kinds{})).Interface().(kinds)
		bit := []bool{v.I}
		want := cat(rb.UintBits(uint64(v.A), 8), rb.IntBits(int64(v.B), 8), rb.UintBits(uint64(v.C), 16), rb.IntBits(int64(v.D), 16),
			rb.UintBits(uint64(v.E), 32), rb.IntBits(int64(v.F), 32), rb.UintBits(v.G, 64), rb.IntBits(v.H, 64), bit, rb.BytesBits(v.J[:]))
		wit := map[string]any{"value": fmt.Sprintf("%+v", v)}
		R.Eval(fmt.Sprintf("kinds/%d", k))
		expect("primitive/go-kinds", marshal("go-kinds", v, wit), cell.New(want, false), wit)
	}
	// Unary
	for _, n := range []uint{0, 1, 2, 31, 62, 63, 64, 65, 200, 1022} {
		wit := map[string]any{"n": n}
		R.Eval(fmt.Sprintf("unary/%d", n))
		expect("primitive/Unary", marshal("Unary", tlb.Unary(n), wit), cell.New(rb.UnaryBits(int(n)), false), wit)
	}
	// constructor tags written for Magic fields (# = hex nibbles, $ = bits)
	type tagged1 struct {
		Magic tlb.Magic `tlb:"tag#7e8764ef"`
		X     uint8
	}
	type tagged2 struct {
		Magic tlb.Magic `tlb:"tag$0110"`
		X     uint8
	}
	type tagged3 struct {
		Magic tlb.Magic `tlb:"tag#a"`
		X     uint8
	}
	w := map[string]any{}
	expect("tag/#32", marshal("tag#", tagged1{X: 0x5a}, w), cell.New(cat(rb.UintBits(0x7e8764ef, 32), rb.UintBits(0x5a, 8)), false), w)
	expect("tag/$4", marshal("tag$", tagged2{X: 0x5a}, w), cell.New(cat(rb.UintBits(6, 4), rb.UintBits(0x5a, 8)), false), w)
	expect("tag/#4", marshal("tag#a", tagged3{X: 0x5a}, w), cell.New(cat(rb.UintBits(10, 4), rb.UintBits(0x5a, 8)), false), w)
	R.EvalN(3, "tags")
	// hand-written enumerations: the constructor tags as written in block.tlb
	//   acc_state_uninit$00 acc_state_frozen$01 acc_state_active$10 acc_state_nonexist$11 = AccountStatus
	//   acst_unchanged$0 acst_frozen$10 acst_deleted$11 = AccStatusChange
	//   cskip_no_state$00 cskip_bad_state$01 cskip_no_gas$10 cskip_suspended$110 = ComputeSkipReason
	enum := func(name string, v any, bitsStr string) {
		want := make([]bool, len(bitsStr))
		for i, ch := range bitsStr {
			want[i] = ch == '1'
		}
		wit := map[string]any{"type": name, "value": fmt.Sprint(v), "tag": bitsStr}
		R.Eval("enum/" + name + "/" + fmt.Sprint(v))
		c := marshal(name, v, wit)
		if !expect("enum-tag/"+name, c, cell.New(want, false), wit) || c == nil {
			return
		}
		// and a schema-conformant cell decodes to that constructor
		rc, err := bridge.ToTongoBuilt(cell.New(want, false))
		if err != nil {
			return
		}
		out := reflect.New(reflect.TypeOf(v))
		if p := mon.Guard(func() { err = tlb.Unmarshal(rc, out.Interface()) }); p != nil || err != nil || fmt.Sprint(out.Elem().Interface()) != fmt.Sprint(v) {
			wit["decoded"], wit["err"] = fmt.Sprint(out.Elem().Interface()), fmt.Sprint(err, p)
			R.Violation("enum-decode-mismatch@"+name, wit)
		}
	}
	enum("tlb.AccountStatus", tlb.AccountUninit, "00")
	enum("tlb.AccountStatus", tlb.AccountFrozen, "01")
	enum("tlb.AccountStatus", tlb.AccountActive, "10")
	enum("tlb.AccountStatus", tlb.AccountNone, "11")
	enum("tlb.AccStatusChange", tlb.AccStatusChangeUnchanged, "0")
	enum("tlb.AccStatusChange", tlb.AccStatusChangeFrozen, "10")
	enum("tlb.AccStatusChange", tlb.AccStatusChangeDeleted, "11")
	enum("tlb.ComputeSkipReason", tlb.ComputeSkipReasonNoState, "00")
	enum("tlb.ComputeSkipReason", tlb.ComputeSkipReasonBadState, "01")
	enum("tlb.ComputeSkipReason", tlb.ComputeSkipReasonNoGas, "10")
	enum("tlb.ComputeSkipReason", tlb.ComputeSkipSuspended, "110")
	// every registry struct that starts with a tagged Magic: the encoding starts with exactly those bits
	for _, e := range reg.Types() {
		if e.Type.Kind() != reflect.Struct || e.Type.NumField() == 0 || e.Type.Field(0).Type != reflect.TypeOf(tlb.Magic(0)) {
			continue
		}
		tag := e.Type.Field(0).Tag.Get("tlb")
		want, ok := tagBits(tag)
		if !ok {
			continue
		}
		for k := 0; k < 4; k++ {
			g := reg.NewGen(R.Rng("magic/"+e.Name, k))
			v := g.New(e.Type)
			c := boc.NewCell()
			var err error
			if p := mon.Guard(func() { err = tlb.Marshal(c, v.Interface()) }); p != nil || err != nil {
				continue
			}
			got := bridge.Bits(c.RawBitString())
			R.Eval("magic/" + e.Name)
			R.Seen("tagged_types", e.Name)
			if len(got) < len(want) || !rb.Equal(got[:len(want)], want) {
				R.Violation("tag-mismatch@"+e.Name, map[string]any{"type": e.Name, "tag": tag, "got": rb.String(got[:min(len(got), 40)])})
			}
			break
		}
	}
	// sum types: the tag of the chosen constructor comes first
	for _, e := range reg.Types() {
		if e.Type.Kind() != reflect.Struct {
			continue
		}
		arms := reg.Arms(e.Type)
		if len(arms) == 0 || e.Name == "tlb.MsgAddress" || e.Name == "tlb.VmStackValue" {
			continue
		}
		if reflect.PointerTo(e.Type).Implements(reflect.TypeOf((*tlb.MarshalerTLB)(nil)).Elem()) || e.Type.Implements(reflect.TypeOf((*tlb.MarshalerTLB)(nil)).Elem()) {
			continue // hand-written encoder decides the layout
		}
		for ai, a := range arms {
			want, ok := tagBits(a.Tag.Get("tlbSumType"))
			if !ok {
				continue
			}
			for k := 0; k < 6; k++ {
				g := reg.NewGen(R.Rng("sum/"+e.Name, ai*10+k))
				g.TopArm = ai
				v := g.New(e.Type)
				c := boc.NewCell()
				var err error
				if p := mon.Guard(func() { err = tlb.Marshal(c, v.Interface()) }); p != nil || err != nil {
					continue
				}
				got := bridge.Bits(c.RawBitString())
				R.Eval("sum/" + e.Name + "." + a.Name)
				R.Seen("union_constructors", e.Name+"."+a.Name)
				if len(got) < len(want) || !rb.Equal(got[:len(want)], want) {
					R.Violation("constructor-tag-mismatch@"+e.Name, map[string]any{"type": e.Name, "constructor": a.Name, "tag": a.Tag.Get("tlbSumType"), "got": rb.String(got[:min(len(got), 40)])})
				}
				break
			}
		}
	}
}

func tagBits(tag string) ([]bool, bool) {
	i := strings.IndexAny(tag, "#$")
	if i < 0 {
		return nil, false
	}
	s := tag[i+1:]
	if s == "" || s == "_" {
		return nil, true
	}
	if tag[i] == '$' {
		out := make([]bool, len(s))
		for k, ch := range s {
			if ch != '0' && ch != '1' {
				return nil, false
			}
			out[k] = ch == '1'
		}
		return out, true
	}
	v, err := strconv.ParseUint(s, 16, 64)
	if err != nil {
		return nil, false
	}
	return rb.UintBits(v, 4*len(s)), true
}

func bigOf(v reflect.Value) *big.Int {
	p := reflect.NewAt(reflect.TypeOf(big.Int{}), v.Addr().UnsafePointer()).Interface().(*big.Int)
	return new(big.Int).Set(p)
}

func setBig(v reflect.Value, x *big.Int) {
	p := reflect.NewAt(reflect.TypeOf(big.Int{}), v.Addr().UnsafePointer()).Interface().(*big.Int)
	p.Set(x)
}

// ---------------------------------------------------------------- combinators

func sectionCombinators() {
	for k := 0; k < R.N(200, 40000); k++ {
		rng := R.Rng("comb", k)
		x := tlb.Uint7(rng.Intn(128))
		y := tlb.Int33(int64(rng.Uint64()) >> 31)
		xb, yb := rb.UintBits(uint64(x), 7), rb.IntBits(int64(y), 33)
		wit := map[string]any{"x": x, "y": y}
		// Maybe
		m := tlb.Maybe[tlb.Uint7]{Exists: rng.Bool(), Value: x}
		want := []bool{m.Exists}
		if m.Exists {
			want = cat(want, xb)
		} else {
			m.Value = 0
		}
		expect("combinator/Maybe", marshal("Maybe", m, wit), cell.New(want, false), wit)
		// Either
		e := tlb.Either[tlb.Uint7, tlb.Int33]{IsRight: rng.Bool()}
		if e.IsRight {
			e.Right = y
			want = cat([]bool{true}, yb)
		} else {
			e.Left = x
			want = cat([]bool{false}, xb)
		}
		expect("combinator/Either", marshal("Either", e, wit), cell.New(want, false), wit)
		// EitherRef
		er := tlb.EitherRef[tlb.Int33]{IsRight: rng.Bool(), Value: y}
		if er.IsRight {
			expect("combinator/EitherRef", marshal("EitherRef", er, wit), cell.New([]bool{true}, false, cell.New(yb, false)), wit)
		} else {
			expect("combinator/EitherRef", marshal("EitherRef", er, wit), cell.New(cat([]bool{false}, yb), false), wit)
		}
		// Ref and the ^ / maybe / maybe^ tags
		expect("combinator/Ref", marshal("Ref", tlb.Ref[tlb.Int33]{Value: y}, wit), cell.New(nil, false, cell.New(yb, false)), wit)
		type tags struct {
			A tlb.Uint7
			B tlb.Int33  `tlb:"^"`
			C *tlb.Uint7 `tlb:"maybe"`
			D *tlb.Int33 `tlb:"maybe^"`
			E tlb.Uint7
		}
		tv := tags{A: x, B: y, E: x}
		wantBits := cat(xb)
		refs := []*cell.Cell{cell.New(yb, false)}
		if rng.Bool() {
			tv.C = &x
			wantBits = cat(wantBits, []bool{true}, xb)
		} else {
			wantBits = cat(wantBits, []bool{false})
		}
		if rng.Bool() {
			tv.D = &y
			wantBits = cat(wantBits, []bool{true})
			refs = append(refs, cell.New(yb, false))
		} else {
			wantBits = cat(wantBits, []bool{false})
		}
		wantBits = cat(wantBits, xb)
		expect("combinator/struct-tags", marshal("struct-tags", tv, wit), cell.New(wantBits, false, refs...), wit)
		R.EvalN(6, fmt.Sprintf("comb/%d", k))
	}
}

// ---------------------------------------------------------------- (2) core structures: abstract value -> tongo value + reference bits

type addr struct {
	kind    int // 0 none 1 extern 2 std 3 var
	anycast bool
	depth   uint32
	pfx     uint32
	wc      int32
	bits    []bool
}

func genAddr(rng *mon.Rng, kinds ...int) addr {
	a := addr{kind: mon.Pick(rng, kinds)}
	if a.kind >= 2 && rng.Chance(1, 3) {
		a.anycast = true
		a.depth = uint32(rng.Range(1, 30))
		a.pfx = uint32(rng.Uint64() & (uint64(1)<<a.depth - 1))
	}
	switch a.kind {
	case 1:
		a.bits = rng.Bits(mon.Pick(rng, []int{0, 1, 8, 9, 100, 256, 300, 511}))
	case 2:
		a.wc = int32(int8(rng.Uint64()))
		a.bits = rng.Bits(256)
	case 3:
		a.wc = int32(rng.Uint64())
		a.bits = rng.Bits(mon.Pick(rng, []int{0, 1, 8, 100, 255, 256, 257, 300}))
	}
	return a
}

func (a addr) tongo() tlb.MsgAddress {
	var m tlb.MsgAddress
	any := tlb.Maybe[tlb.Anycast]{Exists: a.anycast}
	if a.anycast {
		any.Value = tlb.Anycast{Depth: a.depth, RewritePfx: a.pfx}
	}
	bs := boc.NewBitString(len(a.bits))
	for _, b := range a.bits {
		bs.WriteBit(b)
	}
	switch a.kind {
	case 0:
		m.SumType = "AddrNone"
	case 1:
		m.SumType = "AddrExtern"
		m.AddrExtern = &bs
	case 2:
		m.SumType = "AddrStd"
		m.AddrStd.Anycast = any
		m.AddrStd.WorkchainId = int8(a.wc)
		copy(m.AddrStd.Address[:], rb.ToBytes(a.bits))
	case 3:
		m.SumType = "AddrVar"
		m.AddrVar = &struct {
			Anycast     tlb.Maybe[tlb.Anycast]
			AddrLen     tlb.Uint9
			WorkchainId int32
			Address     boc.BitString
		}{Anycast: any, AddrLen: tlb.Uint9(len(a.bits)), WorkchainId: a.wc, Address: bs}
	}
	return m
}

// addr_none$00 | addr_extern$01 len:(## 9) external_address:(bits len)
// addr_std$10 anycast:(Maybe Anycast) workchain_id:int8 address:bits256
// addr_var$11 anycast:(Maybe Anycast) addr_len:(## 9) workchain_id:int32 address:(bits addr_len)
// anycast_info$_ depth:(#<= 30) { depth >= 1 } rewrite_pfx:(bits depth)
func (a addr) ref() []bool {
	any := []bool{a.anycast}
	if a.anycast {
		any = cat(any, rb.UintBits(uint64(a.depth), 5), rb.UintBits(uint64(a.pfx), int(a.depth)))
	}
	switch a.kind {
	case 0:
		return []bool{false, false}
	case 1:
		return cat([]bool{false, true}, rb.UintBits(uint64(len(a.bits)), 9), a.bits)
	case 2:
		return cat([]bool{true, false}, any, rb.IntBits(int64(a.wc), 8), a.bits)
	default:
		return cat([]bool{true, true}, any, rb.UintBits(uint64(len(a.bits)), 9), rb.IntBits(int64(a.wc), 32), a.bits)
	}
}

// var_uint$_ {n:#} len:(#< n) value:(uint (len * 8)) = VarUInteger n
func refVarUint(x *big.Int, n int) []bool {
	l := (x.BitLen() + 7) / 8
	return cat(rb.UintBits(uint64(l), rb.LimWidth(uint64(n-1))), rb.BigBits(x, 8*l))
}

func genGrams(rng *mon.Rng) uint64 {
	return mon.Pick(rng, []uint64{0, 1, 255, 256, 1 << 32, 1<<63 - 1, 1 << 63, ^uint64(0), rng.Uint64(), rng.Uint64() >> uint(rng.Intn(64))})
}

func refGrams(g uint64) []bool { return refVarUint(new(big.Int).SetUint64(g), 16) }

// currencies$_ grams:Grams other:ExtraCurrencyCollection ; extra_currencies$_ dict:(HashmapE 32 (VarUInteger 32)) -- empty dict only
func refCurrency(g uint64) []bool { return cat(refGrams(g), []bool{false}) }

type msgInfo struct {
	kind                          int // 0 int 1 ext-in 2 ext-out
	ihrDisabled, bounce, bounced  bool
	src, dst                      addr
	value, ihrFee, fwdFee, impFee uint64
	lt                            uint64
	at                            uint32
}

func genInfo(rng *mon.Rng) msgInfo {
	i := msgInfo{kind: rng.Intn(3), ihrDisabled: rng.Bool(), bounce: rng.Bool(), bounced: rng.Bool(),
		value: genGrams(rng), ihrFee: genGrams(rng), fwdFee: genGrams(rng), impFee: genGrams(rng), lt: rng.Uint64(), at: uint32(rng.Uint64())}
	// keep the message within one cell: at most one long address
	switch i.kind {
	case 0:
		i.src, i.dst = genAddr(rng, 0, 2, 2, 3), genAddr(rng, 2, 2, 2)
	case 1:
		i.src, i.dst = genAddr(rng, 0, 0, 1), genAddr(rng, 2, 2, 3)
		if i.src.kind == 1 && i.dst.kind == 3 {
			i.dst = genAddr(rng, 2)
		}
	case 2:
		i.src, i.dst = genAddr(rng, 2, 2, 3), genAddr(rng, 0, 1)
		if i.src.kind == 3 && i.dst.kind == 1 {
			i.src = genAddr(rng, 2)
		}
	}
	return i
}

func (i msgInfo) tongo() tlb.CommonMsgInfo {
	var c tlb.CommonMsgInfo
	switch i.kind {
	case 0:
		c.SumType = "IntMsgInfo"
		c.IntMsgInfo = &struct {
			IhrDisabled bool
			Bounce      bool
			Bounced     bool
			Src         tlb.MsgAddress
			Dest        tlb.MsgAddress
			Value       tlb.CurrencyCollection
			IhrFee      tlb.Grams
			FwdFee      tlb.Grams
			CreatedLt   uint64
			CreatedAt   uint32
		}{i.ihrDisabled, i.bounce, i.bounced, i.src.tongo(), i.dst.tongo(), tlb.CurrencyCollection{Grams: tlb.Grams(i.value)}, tlb.Grams(i.ihrFee), tlb.Grams(i.fwdFee), i.lt, i.at}
	case 1:
		c.SumType = "ExtInMsgInfo"
		c.ExtInMsgInfo = &struct {
			Src       tlb.MsgAddress
			Dest      tlb.MsgAddress
			ImportFee tlb.VarUInteger16
		}{i.src.tongo(), i.dst.tongo(), tlb.VarUInteger16(*new(big.Int).SetUint64(i.impFee))}
	case 2:
		c.SumType = "ExtOutMsgInfo"
		c.ExtOutMsgInfo = &struct {
			Src       tlb.MsgAddress
			Dest      tlb.MsgAddress
			CreatedLt uint64
			CreatedAt uint32
		}{i.src.tongo(), i.dst.tongo(), i.lt, i.at}
	}
	return c
}

// int_msg_info$0 ihr_disabled:Bool bounce:Bool bounced:Bool src:MsgAddressInt dest:MsgAddressInt value:CurrencyCollection
//
//	ihr_fee:Grams fwd_fee:Grams created_lt:uint64 created_at:uint32
//
// ext_in_msg_info$10 src:MsgAddressExt dest:MsgAddressInt import_fee:Grams
// ext_out_msg_info$11 src:MsgAddressInt dest:MsgAddressExt created_lt:uint64 created_at:uint32
func (i msgInfo) ref() []bool {
	switch i.kind {
	case 0:
		return cat([]bool{false, i.ihrDisabled, i.bounce, i.bounced}, i.src.ref(), i.dst.ref(), refCurrency(i.value), refGrams(i.ihrFee), refGrams(i.fwdFee),
			rb.UintBits(i.lt, 64), rb.UintBits(uint64(i.at), 32))
	case 1:
		return cat([]bool{true, false}, i.src.ref(), i.dst.ref(), refGrams(i.impFee))
	default:
		return cat([]bool{true, true}, i.src.ref(), i.dst.ref(), rb.UintBits(i.lt, 64), rb.UintBits(uint64(i.at), 32))
	}
}

type stateInit struct {
	splitDepth *uint8
	special    *[2]bool
	code, data *cell.Cell
}

func genCell(rng *mon.Rng, depth int) *cell.Cell {
	c := cell.New(rng.Bits(rng.Intn(120)), false)
	if depth < 2 {
		for k := 0; k < rng.Intn(3); k++ {
			c.Refs = append(c.Refs, genCell(rng, depth+1))
		}
	}
	return c
}

// genRefCell: a cell for a position where the schema has ^Cell: mostly an
// ordinary tree, now and then an exotic cell - a library cell (contract code
// on the mainnet is often one), a Merkle proof / update, a pruned branch.
// The reference has to point to that very cell, type included.
func genRefCell(rng *mon.Rng, depth int) *cell.Cell {
	if !rng.Chance(1, 3) {
		return genCell(rng, depth)
	}
	var c *cell.Cell
	switch rng.Intn(5) {
	case 0, 1:
		c = genLibrary(rng)
	case 2:
		c = cell.NewMerkleProof(genCell(rng, 2))
	case 3:
		c = cell.NewMerkleUpdate(genCell(rng, 2), genCell(rng, 2))
	default:
		c = cell.NewPruned(genCell(rng, 2), 1)
	}
	R.Seen("exotic_ref_cells", fmt.Sprintf("type%d", c.Type()))
	return c
}

func genLibrary(rng *mon.Rng) *cell.Cell {
	var h cell.Hash
	copy(h[:], rng.Bytes(32))
	return cell.NewLibrary(h)
}

func genStateInit(rng *mon.Rng) stateInit {
	var s stateInit
	if rng.Chance(1, 3) {
		d := uint8(rng.Intn(32))
		s.splitDepth = &d
	}
	if rng.Chance(1, 3) {
		s.special = &[2]bool{rng.Bool(), rng.Bool()}
	}
	if rng.Chance(2, 3) {
		s.code = genRefCell(rng, 1)
	}
	if rng.Chance(2, 3) {
		s.data = genRefCell(rng, 1)
	}
	return s
}

// tongoCell builds the tongo value of a reference cell with tongo's in-memory
// API; exotic cells with NewCellExotic (their children are ordinary here).
func tongoCell(c *cell.Cell) boc.Cell {
	if c.Exotic {
		t := boc.NewCellExotic(boc.CellType(c.Type()))
		for _, b := range c.Bits {
			_ = t.WriteBit(b)
		}
		for _, r := range c.Refs {
			ch := tongoCell(r)
			_ = t.AddRef(&ch)
		}
		return *t
	}
	t, err := bridge.ToTongoBuilt(c)
	if err != nil {
		R.HarnessError("tongoCell: %v", err)
		return *boc.NewCell()
	}
	return *t
}

func (s stateInit) tongo() tlb.StateInit {
	var t tlb.StateInit
	if s.splitDepth != nil {
		t.SplitDepth = tlb.Maybe[tlb.Uint5]{Exists: true, Value: tlb.Uint5(*s.splitDepth)}
	}
	if s.special != nil {
		t.Special = tlb.Maybe[tlb.TickTock]{Exists: true, Value: tlb.TickTock{Tick: s.special[0], Tock: s.special[1]}}
	}
	if s.code != nil {
		t.Code = tlb.Maybe[tlb.Ref[boc.Cell]]{Exists: true, Value: tlb.Ref[boc.Cell]{Value: tongoCell(s.code)}}
	}
	if s.data != nil {
		t.Data = tlb.Maybe[tlb.Ref[boc.Cell]]{Exists: true, Value: tlb.Ref[boc.Cell]{Value: tongoCell(s.data)}}
	}
	return t
}

// _ split_depth:(Maybe (## 5)) special:(Maybe TickTock) code:(Maybe ^Cell) data:(Maybe ^Cell) library:(HashmapE 256 SimpleLib) = StateInit
func (s stateInit) ref() ([]bool, []*cell.Cell) {
	var b []bool
	var refs []*cell.Cell
	if s.splitDepth != nil {
		b = cat(b, []bool{true}, rb.UintBits(uint64(*s.splitDepth), 5))
	} else {
		b = append(b, false)
	}
	if s.special != nil {
		b = cat(b, []bool{true, s.special[0], s.special[1]})
	} else {
		b = append(b, false)
	}
	for _, c := range []*cell.Cell{s.code, s.data} {
		if c != nil {
			b = append(b, true)
			refs = append(refs, c)
		} else {
			b = append(b, false)
		}
	}
	b = append(b, false) // empty library dictionary
	return b, refs
}

// account_none$0 = Account;
// account$1 addr:MsgAddressInt storage_stat:StorageInfo storage:AccountStorage = Account;
// storage_info$_ used:StorageUsed storage_extra:StorageExtraInfo last_paid:uint32 due_payment:(Maybe Grams) = StorageInfo;
// storage_used$_ cells:(VarUInteger 7) bits:(VarUInteger 7) = StorageUsed;
// storage_extra_none$000 = StorageExtraInfo; storage_extra_info$001 dict_hash:uint256 = StorageExtraInfo;
// account_storage$_ last_trans_lt:uint64 balance:CurrencyCollection state:AccountState = AccountStorage;
// account_uninit$00 = AccountState; account_active$1 _:StateInit = AccountState; account_frozen$01 state_hash:bits256 = AccountState;
// account_descr$_ account:^Account last_trans_hash:bits256 last_trans_lt:uint64 = ShardAccount;
type account struct {
	kind        int // 0 none 1 uninit 2 active 3 frozen
	addr        addr
	cells, bits *big.Int
	extra       []byte // nil or 32 bytes
	lastPaid    uint32
	due         *uint64
	lastLt      uint64
	balance     uint64
	si          stateInit
	frozen      []byte
}

func genAccount(rng *mon.Rng, si stateInit) account {
	a := account{kind: rng.Intn(4), addr: genAddr(rng, 2, 2, 3), lastPaid: uint32(rng.Uint64()), lastLt: rng.Uint64(), balance: genGrams(rng), si: si}
	used := func() *big.Int {
		n := rng.Intn(7) // VarUInteger 7: 0..6 bytes
		if n == 0 {
			return new(big.Int)
		}
		b := rng.Bytes(n)
		b[0] |= mon.Pick(rng, []byte{0x80, 0x01})
		return new(big.Int).SetBytes(b)
	}
	a.cells, a.bits = used(), used()
	if rng.Bool() {
		a.extra = rng.Bytes(32)
	}
	if rng.Bool() {
		d := genGrams(rng)
		a.due = &d
	}
	a.frozen = rng.Bytes(32)
	return a
}

func (a account) tongo() tlb.Account {
	if a.kind == 0 {
		return tlb.Account{SumType: "AccountNone"}
	}
	var t tlb.Account
	t.SumType = "Account"
	t.Account.Addr = a.addr.tongo()
	t.Account.StorageStat.Used = tlb.StorageUsed{Cells: tlb.VarUInteger7(*a.cells), Bits: tlb.VarUInteger7(*a.bits)}
	if a.extra != nil {
		t.Account.StorageStat.StorageExtra.SumType = "StorageExtraInfo"
		copy(t.Account.StorageStat.StorageExtra.StorageExtraInfo.DictHash[:], a.extra)
	} else {
		t.Account.StorageStat.StorageExtra.SumType = "StorageExtraNone"
	}
	t.Account.StorageStat.LastPaid = a.lastPaid
	if a.due != nil {
		t.Account.StorageStat.DuePayment = tlb.Maybe[tlb.Grams]{Exists: true, Value: tlb.Grams(*a.due)}
	}
	t.Account.Storage.LastTransLt = a.lastLt
	t.Account.Storage.Balance = tlb.CurrencyCollection{Grams: tlb.Grams(a.balance)}
	switch a.kind {
	case 1:
		t.Account.Storage.State.SumType = "AccountUninit"
	case 2:
		t.Account.Storage.State.SumType = "AccountActive"
		t.Account.Storage.State.AccountActive.StateInit = a.si.tongo()
	case 3:
		t.Account.Storage.State.SumType = "AccountFrozen"
		copy(t.Account.Storage.State.AccountFrozen.StateHash[:], a.frozen)
	}
	return t
}

func (a account) ref() ([]bool, []*cell.Cell) {
	if a.kind == 0 {
		return []bool{false}, nil
	}
	b := cat([]bool{true}, a.addr.ref(), refVarUint(a.cells, 7), refVarUint(a.bits, 7))
	if a.extra != nil {
		b = cat(b, []bool{false, false, true}, rb.BytesBits(a.extra))
	} else {
		b = cat(b, []bool{false, false, false})
	}
	b = cat(b, rb.UintBits(uint64(a.lastPaid), 32))
	if a.due != nil {
		b = cat(b, []bool{true}, refGrams(*a.due))
	} else {
		b = append(b, false)
	}
	b = cat(b, rb.UintBits(a.lastLt, 64), refCurrency(a.balance))
	var refs []*cell.Cell
	switch a.kind {
	case 1:
		b = cat(b, []bool{false, false})
	case 2:
		sb, sr := a.si.ref()
		b = cat(b, []bool{true}, sb)
		refs = sr
	case 3:
		b = cat(b, []bool{false, true}, rb.BytesBits(a.frozen))
	}
	return b, refs
}

func sectionStructures() {
	n := R.N(2000, 600000)
	for k := 0; k < n; k++ {
		rng := R.Rng("struct", k)
		// MsgAddress alone: every kind
		a := genAddr(rng, 0, 1, 2, 3)
		wit := map[string]any{"case": k, "addr_kind": a.kind}
		R.Eval(fmt.Sprintf("addr/%d/%d", a.kind, k))
		expect("MsgAddress", marshal("MsgAddress", a.tongo(), wit), cell.New(a.ref(), false), wit)
		// Grams / CurrencyCollection
		g := genGrams(rng)
		wit = map[string]any{"grams": g}
		expect("Grams", marshal("Grams", tlb.Grams(g), wit), cell.New(refGrams(g), false), wit)
		expect("CurrencyCollection", marshal("CurrencyCollection", tlb.CurrencyCollection{Grams: tlb.Grams(g)}, wit), cell.New(refCurrency(g), false), wit)
		R.EvalN(2, fmt.Sprintf("grams/%d", g))
		// CommonMsgInfo
		info := genInfo(rng)
		wit = map[string]any{"case": k, "info_kind": info.kind}
		R.Eval(fmt.Sprintf("info/%d/%d", info.kind, k))
		expect("CommonMsgInfo", marshal("CommonMsgInfo", info.tongo(), wit), cell.New(info.ref(), false), wit)
		// StateInit
		si := genStateInit(rng)
		sb, srefs := si.ref()
		R.Eval(fmt.Sprintf("stateinit/%d", k))
		expect("StateInit", marshal("StateInit", si.tongo(), wit), cell.New(sb, false, srefs...), wit)
		// simple_lib$_ public:Bool root:^Cell = SimpleLib;
		pub, root := rng.Bool(), genRefCell(rng, 1)
		R.Eval(fmt.Sprintf("simplelib/%d", k))
		expect("SimpleLib", marshal("SimpleLib", tlb.SimpleLib{Public: pub, Root: tongoCell(root)}, wit), cell.New([]bool{pub}, false, root), wit)
		// Account / ShardAccount
		acc := genAccount(rng, si)
		if ab, ar := acc.ref(); len(ab) <= 1023 {
			R.Eval(fmt.Sprintf("account/%d/%d", acc.kind, k))
			R.Seen("account_kinds", fmt.Sprint(acc.kind))
			wa := map[string]any{"case": k, "account_kind": acc.kind}
			expect("Account", marshal("Account", acc.tongo(), wa), cell.New(ab, false, ar...), wa)
			var lh tlb.Bits256
			copy(lh[:], rng.Bytes(32))
			llt := rng.Uint64()
			sa := tlb.ShardAccount{Account: acc.tongo(), LastTransHash: lh, LastTransLt: llt}
			expect("ShardAccount", marshal("ShardAccount", sa, wa),
				cell.New(cat(rb.BytesBits(lh[:]), rb.UintBits(llt, 64)), false, cell.New(ab, false, ar...)), wa)
		}
		// Message: info + init (none / inline / ref) + body (inline / ref)
		// message$_ {X:Type} info:CommonMsgInfo init:(Maybe (Either StateInit ^StateInit)) body:(Either X ^X) = Message X
		initMode := rng.Intn(3)
		bodyRef := rng.Bool()
		body := genCell(rng, 1)
		if bodyRef && rng.Chance(1, 4) {
			// body:(Either X ^X): the reference may point to a library cell that stands for X
			body = genLibrary(rng)
			R.Seen("exotic_ref_cells", "message body: library")
		}
		if !bodyRef {
			body = cell.New(rng.Bits(rng.Intn(60)), false)
			if rng.Bool() {
				body.Refs = append(body.Refs, genCell(rng, 2))
			}
		}
		if initMode == 1 && len(srefs)+len(body.Refs) > 3 {
			initMode = 2
		}
		msg := tlb.Message{Info: info.tongo()}
		bits := info.ref()
		var refs []*cell.Cell
		switch initMode {
		case 0:
			bits = append(bits, false)
		case 1:
			msg.Init = tlb.Maybe[tlb.EitherRef[tlb.StateInit]]{Exists: true, Value: tlb.EitherRef[tlb.StateInit]{IsRight: false, Value: si.tongo()}}
			bits = cat(bits, []bool{true, false}, sb)
			refs = append(refs, srefs...)
		case 2:
			msg.Init = tlb.Maybe[tlb.EitherRef[tlb.StateInit]]{Exists: true, Value: tlb.EitherRef[tlb.StateInit]{IsRight: true, Value: si.tongo()}}
			bits = cat(bits, []bool{true, true})
			refs = append(refs, cell.New(sb, false, srefs...))
		}
		msg.Body = tlb.EitherRef[tlb.Any]{IsRight: bodyRef, Value: tlb.Any(tongoCell(body))}
		if bodyRef {
			bits = append(bits, true)
			refs = append(refs, body)
		} else {
			bits = cat(bits, []bool{false}, body.Bits)
			refs = append(refs, body.Refs...)
		}
		if len(bits) <= 1023 && len(refs) <= 4 {
			wit = map[string]any{"case": k, "info_kind": info.kind, "init": initMode, "body_ref": bodyRef}
			R.Eval(fmt.Sprintf("message/%d/%d/%v/%d", info.kind, initMode, bodyRef, k))
			R.Seen("message_shapes", fmt.Sprintf("info%d/init%d/bodyref=%v", info.kind, initMode, bodyRef))
			expect("Message", marshal("Message", msg, wit), cell.New(bits, false, refs...), wit)
		}
		// ton.CreateExternalMessage: ext_in_msg_info$10 src:addr_none dest:addr_std import_fee ; init as ^StateInit ; body as ^
		if k%4 == 0 {
			dst := genAddr(rng, 2)
			dst.anycast = false
			var id ton.AccountID
			id.Workchain = dst.wc
			copy(id.Address[:], rb.ToBytes(dst.bits))
			fee := genGrams(rng)
			bc := tongoCell(body)
			var initP *tlb.StateInit
			eb := cat([]bool{true, false}, []bool{false, false}, dst.ref(), refGrams(fee))
			var er []*cell.Cell
			if rng.Bool() {
				t := si.tongo()
				initP = &t
				eb = cat(eb, []bool{true, true})
				er = append(er, cell.New(sb, false, srefs...))
			} else {
				eb = append(eb, false)
			}
			eb = append(eb, true)
			er = append(er, body)
			var m tlb.Message
			var err error
			if p := mon.Guard(func() {
				m, err = ton.CreateExternalMessage(id, &bc, initP, tlb.VarUInteger16(*new(big.Int).SetUint64(fee)))
			}); p != nil || err != nil {
				R.Violation("error@CreateExternalMessage", map[string]any{"err": fmt.Sprint(err, p)})
			} else {
				wit = map[string]any{"case": k, "with_init": initP != nil}
				R.Eval(fmt.Sprintf("extmsg/%d", k))
				expect("CreateExternalMessage", marshal("CreateExternalMessage", m, wit), cell.New(eb, false, er...), wit)
			}
		}
	}
}

// ---------------------------------------------------------------- VM stack (hand-written codec)

// vm_stk_null#00 | vm_stk_tinyint#01 value:int64 | vm_stk_int#0201_ value:int257 | vm_stk_nan#02ff
// vm_stk_cell#03 cell:^Cell | vm_stk_slice#04 _:VmCellSlice | vm_stk_builder#05 cell:^Cell
// _ cell:^Cell st_bits:(## 10) end_bits:(## 10) st_ref:(#<= 4) end_ref:(#<= 4) = VmCellSlice
// vm_stack#_ depth:(## 24) stack:(VmStackList depth)
// vm_stk_cons#_ {n:#} rest:^(VmStackList n) tos:VmStackValue = VmStackList (n + 1); vm_stk_nil#_ = VmStackList 0
type vmVal struct {
	kind int // 0 null 1 tinyint 2 int 3 nan 4 cell 5 slice 6 builder
	i64  int64
	big  *big.Int
	c    *cell.Cell
}

func (v vmVal) ref() ([]bool, []*cell.Cell) {
	switch v.kind {
	case 0:
		return rb.UintBits(0x00, 8), nil
	case 1:
		return cat(rb.UintBits(0x01, 8), rb.IntBits(v.i64, 64)), nil
	case 2:
		return cat(rb.UintBits(0x0201>>1, 15), rb.BigBits(v.big, 257)), nil
	case 3:
		return rb.UintBits(0x02ff, 16), nil
	case 4:
		return rb.UintBits(0x03, 8), []*cell.Cell{v.c}
	case 5:
		return cat(rb.UintBits(0x04, 8), rb.UintBits(0, 10), rb.UintBits(uint64(len(v.c.Bits)), 10), rb.UintBits(0, 3), rb.UintBits(uint64(len(v.c.Refs)), 3)), []*cell.Cell{v.c}
	default:
		return rb.UintBits(0x05, 8), []*cell.Cell{v.c}
	}
}

func (v vmVal) tongo() (tlb.VmStackValue, error) {
	switch v.kind {
	case 0:
		return tlb.VmStackValue{SumType: "VmStkNull"}, nil
	case 1:
		return tlb.VmStackValue{SumType: "VmStkTinyInt", VmStkTinyInt: v.i64}, nil
	case 2:
		return tlb.VmStackValue{SumType: "VmStkInt", VmStkInt: tlb.Int257(*v.big)}, nil
	case 3:
		return tlb.VmStackValue{SumType: "VmStkNan"}, nil
	case 4:
		return tlb.VmStackValue{SumType: "VmStkCell", VmStkCell: tlb.Ref[boc.Cell]{Value: tongoCell(v.c)}}, nil
	case 5:
		tc := tongoCell(v.c)
		return tlb.CellToVmCellSlice(&tc)
	default:
		return tlb.VmStackValue{SumType: "VmStkBuilder", VmStkBuilder: tlb.Ref[boc.Cell]{Value: tongoCell(v.c)}}, nil
	}
}

func genVmVal(rng *mon.Rng) vmVal {
	v := vmVal{kind: rng.Intn(7)}
	switch v.kind {
	case 1:
		v.i64 = mon.Pick(rng, []int64{0, 1, -1, 1<<63 - 1, -1 << 63, int64(rng.Uint64())})
	case 2:
		one := big.NewInt(1)
		v.big = mon.Pick(rng, []*big.Int{big.NewInt(0), big.NewInt(-1), new(big.Int).Neg(new(big.Int).Lsh(one, 256)),
			new(big.Int).Sub(new(big.Int).Lsh(one, 256), one), rng.BigBits(256), new(big.Int).Neg(rng.BigBits(255))})
	case 4, 6:
		v.c = genRefCell(rng, 1) // vm_stk_cell#03 cell:^Cell, vm_stk_builder#05 cell:^Cell
	case 5:
		v.c = genCell(rng, 1)
	}
	return v
}

func sectionVmStack() {
	n := R.N(400, 100000)
	for k := 0; k < n; k++ {
		rng := R.Rng("vm", k)
		// single values
		v := genVmVal(rng)
		tv, err := v.tongo()
		if err != nil {
			continue
		}
		bits, refs := v.ref()
		wit := map[string]any{"case": k, "kind": v.kind}
		R.Eval(fmt.Sprintf("vmvalue/%d/%d", v.kind, k))
		R.Seen("vm_value_kinds", fmt.Sprint(v.kind))
		expect("VmStackValue", marshal("VmStackValue", tv, wit), cell.New(bits, false, refs...), wit)
		// stacks: the first list entry is the top of the stack (outermost cons)
		depth := rng.Intn(6)
		var vals []vmVal
		var st tlb.VmStack
		ok := true
		for i := 0; i < depth; i++ {
			x := genVmVal(rng)
			tx, err := x.tongo()
			if err != nil {
				ok = false
				break
			}
			vals = append(vals, x)
			st = append(st, tx)
		}
		if !ok {
			continue
		}
		var list func(i int) *cell.Cell // VmStackList (depth-i) holding vals[i:]
		list = func(i int) *cell.Cell {
			if i == len(vals) {
				return cell.New(nil, false)
			}
			b, r := vals[i].ref()
			return cell.New(b, false, append([]*cell.Cell{list(i + 1)}, r...)...)
		}
		var want *cell.Cell
		if depth == 0 {
			want = cell.New(rb.UintBits(0, 24), false)
		} else {
			b, r := vals[0].ref()
			want = cell.New(cat(rb.UintBits(uint64(depth), 24), b), false, append([]*cell.Cell{list(1)}, r...)...)
		}
		R.Eval(fmt.Sprintf("vmstack/%d/%d", depth, k))
		expect("VmStack", marshal("VmStack", st, map[string]any{"case": k, "depth": depth}), want, map[string]any{"case": k, "depth": depth})
		// the same stack built with Put: what is pushed last ends on top (the argument list is top-first)
		var pushed tlb.VmStack
		for i := len(st) - 1; i >= 0; i-- {
			pushed.Put(st[i])
		}
		R.Eval(fmt.Sprintf("vmstack-put/%d/%d", depth, k))
		expect("VmStack/Put", marshal("VmStack/Put", pushed, map[string]any{"case": k, "depth": depth}), want, map[string]any{"case": k, "depth": depth, "built": "Put, bottom value first"})
		// a slice that covers a part of its cell (0 <= st <= end) exists only as a decoded value:
		// vm_stk_slice#04 cell:^Cell st_bits:(## 10) end_bits:(## 10) st_ref:(#<= 4) end_ref:(#<= 4)
		sc := genCell(rng, 1)
		eb, er := rng.Intn(len(sc.Bits)+1), rng.Intn(len(sc.Refs)+1)
		sb, sr := rng.Intn(eb+1), rng.Intn(er+1)
		src := cell.New(cat(rb.UintBits(0x04, 8), rb.UintBits(uint64(sb), 10), rb.UintBits(uint64(eb), 10), rb.UintBits(uint64(sr), 3), rb.UintBits(uint64(er), 3)), false, sc)
		tsrc := tongoCell(src)
		var sv tlb.VmStackValue
		ws := map[string]any{"case": k, "st_bits": sb, "end_bits": eb, "st_ref": sr, "end_ref": er, "cell_bits": len(sc.Bits), "cell_refs": len(sc.Refs)}
		if p := mon.Guard(func() { err = tlb.Unmarshal(&tsrc, &sv) }); p != nil || err != nil {
			ws["err"] = fmt.Sprint(err, p)
			R.Violation("decode-failed@VmStkSlice/partial", ws)
			continue
		}
		R.Eval(fmt.Sprintf("vmslice-partial/%d/%d/%d/%d/%d", sb, eb, sr, er, k))
		R.Seen("vm_slice_shapes", fmt.Sprintf("st_bits>0=%v st_ref>0=%v", sb > 0, sr > 0))
		expect("VmStkSlice/partial", marshal("VmStkSlice/partial", sv, ws), src, ws)
		var part *boc.Cell
		if p := mon.Guard(func() { part = sv.VmStkSlice.Cell() }); p != nil {
			ws["panic"] = p.Value
			R.Violation("panic@VmCellSlice.Cell", ws)
			continue
		}
		expect("VmCellSlice.Cell", part, cell.New(sc.Bits[sb:eb], false, sc.Refs[sr:er]...), ws)
	}
	// tlb.Int257FromInt64 / tlb.VarUInteger16FromInt64: the value of the argument in the declared layout
	for i, x := range []int64{0, 1, -1, 255, 256, -256, 1 << 32, -(1 << 32), 1<<63 - 1, -1 << 63, -1<<63 + 1, int64(R.Rng("fromint", 0).Uint64()), -int64(R.Rng("fromint", 1).Uint64() >> 1)} {
		wit := map[string]any{"value": x}
		R.Eval(fmt.Sprintf("fromint64/%d", i))
		expect("Int257FromInt64", marshal("Int257FromInt64", tlb.Int257FromInt64(x), wit), cell.New(rb.BigBits(big.NewInt(x), 257), false), wit)
		if x >= 0 {
			expect("VarUInteger16FromInt64", marshal("VarUInteger16FromInt64", tlb.VarUInteger16FromInt64(x), wit), cell.New(refVarUint(big.NewInt(x), 16), false), wit)
		}
	}
}

// ---------------------------------------------------------------- wallet v5 value types

// out_list_empty$_ = OutList 0;
// out_list$_ {n:#} prev:^(OutList n) action:OutAction = OutList (n + 1);
// action_send_msg#0ec3c86d mode:(## 8) out_msg:^(MessageRelaxed Any) = OutAction;
type w5act struct {
	mode uint8
	msg  *cell.Cell
}

func refOutList(a []w5act) *cell.Cell {
	if len(a) == 0 {
		return cell.New(nil, false)
	}
	return cell.New(cat(rb.UintBits(0x0ec3c86d, 32), rb.UintBits(uint64(a[0].mode), 8)), false, refOutList(a[1:]), a[0].msg)
}

// action_list_extended$_ {m:#} {n:#} action:ExtendedAction prev:^(ActionList n m) = ActionList n (m+1);
// action_add_ext#02 addr:MsgAddressInt = ExtendedAction; action_delete_ext#03 addr:MsgAddressInt = ExtendedAction;
// action_set_signature_auth_allowed#04 allowed:(## 1) = ExtendedAction;
// (the last extended action of the list has no further reference)
type w5ext struct {
	kind    int // 2 add 3 delete 4 set-signature-allowed
	addr    addr
	allowed bool
}

func (e w5ext) bits() []bool {
	if e.kind == 4 {
		return cat(rb.UintBits(4, 8), []bool{e.allowed})
	}
	return cat(rb.UintBits(uint64(e.kind), 8), e.addr.ref())
}

func refExtList(e []w5ext) ([]bool, []*cell.Cell) {
	if len(e) == 1 {
		return e[0].bits(), nil
	}
	b, r := refExtList(e[1:])
	return e[0].bits(), []*cell.Cell{cell.New(b, false, r...)}
}

func (e w5ext) tongo() wallet.W5ExtendedAction {
	switch e.kind {
	case 2:
		return wallet.W5ExtendedAction{SumType: "AddExtension", AddExtension: &struct{ Addr tlb.MsgAddress }{e.addr.tongo()}}
	case 3:
		return wallet.W5ExtendedAction{SumType: "RemoveExtension", RemoveExtension: &struct{ Addr tlb.MsgAddress }{e.addr.tongo()}}
	}
	return wallet.W5ExtendedAction{SumType: "SetSignatureAllowed", SetSignatureAllowed: &struct{ Allowed bool }{e.allowed}}
}

// signed_request$_ wallet_id:(## 32) valid_until:(## 32) msg_seqno:(## 32) inner:InnerRequest signature:bits512 = SignedRequest;
// internal_signed#73696e74 signed:SignedRequest = InternalMsgBody; external_signed#7369676e signed:SignedRequest = ExternalMsgBody;
// internal_extension#6578746e query_id:(## 64) inner:InnerRequest = InternalMsgBody;
// actions$_ out_actions:(Maybe OutList) has_other_actions:(## 1) {m:#} {n:#} other_actions:(ActionList n m) = InnerRequest;
// v5 beta: (magic) wallet_id:(## 80) valid_until:(## 32) msg_seqno:(## 32) op:(## 1) signature:bits512 actions:^OutList
func sectionWalletV5() {
	n := R.N(600, 60000)
	for k := 0; k < n; k++ {
		rng := R.Rng("w5", k)
		cnt := mon.Pick(rng, []int{0, 1, 2, 3, 3, 4, 5, 10, rng.Intn(9)})
		if R.Thorough() && rng.Chance(1, 200) {
			cnt = 255
		}
		acts := make([]w5act, cnt)
		var tacts wallet.W5Actions
		for i := range acts {
			acts[i] = w5act{mode: uint8(rng.Uint64()), msg: genCell(rng, 1)}
			if i > 0 && rng.Chance(1, 8) {
				acts[i] = acts[rng.Intn(i)] // a repeated action now and then
			}
			tc := tongoCell(acts[i].msg)
			tacts = append(tacts, wallet.W5SendMessageAction{Mode: acts[i].mode, Msg: &tc})
		}
		wit := map[string]any{"case": k, "actions": cnt}
		R.Eval(fmt.Sprintf("w5actions/%d/%d", cnt, k))
		R.Seen("w5_action_counts", fmt.Sprint(cnt))
		expect("W5Actions", marshal("W5Actions", tacts, wit), refOutList(acts), wit)
		// extended actions: 0 (absent) .. 3
		exts := make([]w5ext, rng.Intn(4))
		var texts wallet.W5ExtendedActions
		for i := range exts {
			exts[i] = w5ext{kind: 2 + rng.Intn(3), addr: genAddr(rng, 2), allowed: rng.Bool()}
			texts = append(texts, exts[i].tongo())
		}
		if len(exts) > 0 {
			eb, er := refExtList(exts)
			R.Eval(fmt.Sprintf("w5ext/%d/%d", len(exts), k))
			expect("W5ExtendedActions", marshal("W5ExtendedActions", texts, wit), cell.New(eb, false, er...), wit)
		}
		// inner request
		withActs := rng.Chance(3, 4)
		inner := []bool{withActs}
		var innerRefs []*cell.Cell
		var pa *wallet.W5Actions
		if withActs {
			pa = &tacts
			innerRefs = append(innerRefs, refOutList(acts))
		}
		var pe *wallet.W5ExtendedActions
		if len(exts) > 0 {
			pe = &texts
			eb, er := refExtList(exts)
			inner = cat(inner, []bool{true}, eb)
			innerRefs = append(innerRefs, er...)
		} else {
			inner = append(inner, false)
		}
		wid, until, seqno, qid := uint32(rng.Uint64()), uint32(rng.Uint64()), uint32(rng.Uint64()), rng.Uint64()
		var sig tlb.Bits512
		copy(sig[:], rng.Bytes(64))
		signed := cat(rb.UintBits(uint64(wid), 32), rb.UintBits(uint64(until), 32), rb.UintBits(uint64(seqno), 32), inner, rb.BytesBits(sig[:]))
		var m5 wallet.MessageV5
		var want *cell.Cell
		kind := rng.Intn(3)
		switch kind {
		case 0:
			m5.SumType = "SignedInternal"
			m5.SignedInternal = &struct {
				WalletId        uint32
				ValidUntil      uint32
				Seqno           uint32
				Actions         *wallet.W5Actions         `tlb:"maybe^"`
				ExtendedActions *wallet.W5ExtendedActions `tlb:"maybe"`
				Signature       tlb.Bits512
			}{wid, until, seqno, pa, pe, sig}
			want = cell.New(cat(rb.UintBits(0x73696e74, 32), signed), false, innerRefs...)
		case 1:
			m5.SumType = "SignedExternal"
			m5.SignedExternal = &struct {
				WalletId        uint32
				ValidUntil      uint32
				Seqno           uint32
				Actions         *wallet.W5Actions         `tlb:"maybe^"`
				ExtendedActions *wallet.W5ExtendedActions `tlb:"maybe"`
				Signature       tlb.Bits512
			}{wid, until, seqno, pa, pe, sig}
			want = cell.New(cat(rb.UintBits(0x7369676e, 32), signed), false, innerRefs...)
		default:
			m5.SumType = "ExtensionAction"
			m5.ExtensionAction = &struct {
				QueryID         uint64
				Actions         *wallet.W5Actions         `tlb:"maybe^"`
				ExtendedActions *wallet.W5ExtendedActions `tlb:"maybe"`
			}{qid, pa, pe}
			want = cell.New(cat(rb.UintBits(0x6578746e, 32), rb.UintBits(qid, 64), inner), false, innerRefs...)
		}
		if len(want.Bits) <= 1023 {
			w5 := map[string]any{"case": k, "constructor": string(m5.SumType), "actions": cnt, "with_actions": withActs, "extended": len(exts)}
			R.Eval(fmt.Sprintf("messagev5/%d/%d/%v/%d/%d", kind, cnt, withActs, len(exts), k))
			R.Seen("w5_message_shapes", fmt.Sprintf("%s/actions=%v/extended=%v", m5.SumType, withActs, len(exts) > 0))
			expect("MessageV5", marshal("MessageV5", m5, w5), want, w5)
		}
		// v5 beta
		var wid80 tlb.Bits80
		copy(wid80[:], rng.Bytes(10))
		op := rng.Bool()
		beta := cat(rb.BytesBits(wid80[:]), rb.UintBits(uint64(until), 32), rb.UintBits(uint64(seqno), 32), []bool{op}, rb.BytesBits(sig[:]))
		var mb wallet.MessageV5Beta
		magic := uint64(0x7369676e)
		if rng.Bool() {
			mb.SumType = "SignedInternal"
			magic = 0x73696e74
			mb.SignedInternal.WalletId, mb.SignedInternal.ValidUntil, mb.SignedInternal.Seqno = wid80, until, seqno
			mb.SignedInternal.Op, mb.SignedInternal.Signature, mb.SignedInternal.Actions = op, sig, tacts
		} else {
			mb.SumType = "SignedExternal"
			mb.SignedExternal.WalletId, mb.SignedExternal.ValidUntil, mb.SignedExternal.Seqno = wid80, until, seqno
			mb.SignedExternal.Op, mb.SignedExternal.Signature, mb.SignedExternal.Actions = op, sig, tacts
		}
		wb := map[string]any{"case": k, "constructor": string(mb.SumType), "actions": cnt}
		R.Eval(fmt.Sprintf("messagev5beta/%s/%d/%d", mb.SumType, cnt, k))
		expect("MessageV5Beta", marshal("MessageV5Beta", mb, wb), cell.New(cat(rb.UintBits(magic, 32), beta), false, refOutList(acts)), wb)
	}
}

// wallet v3: subwallet_id:uint32 valid_until:uint32 msg_seqno:uint32 (mode:uint8 out_msg:^(MessageRelaxed Any))*
// wallet v4: subwallet_id:uint32 valid_until:uint32 msg_seqno:uint32 op:int8 (mode:uint8 out_msg:^(MessageRelaxed Any))*
// (up to 4 messages: one reference each; every mode is the byte the caller gave, 0 included)
func sectionWalletV3V4() {
	u32s := []uint32{0, 1, 698983191, 1<<31 - 1, 1 << 31, 1<<32 - 1}
	modes := []uint8{0, 1, 2, 3, 64, 128, 130, 255}
	n := R.N(600, 60000)
	for k := 0; k < n; k++ {
		rng := R.Rng("w34", k)
		pick32 := func() uint32 {
			if rng.Bool() {
				return mon.Pick(rng, u32s)
			}
			return uint32(rng.Uint64())
		}
		cnt := k % 5
		var payload wallet.PayloadV1toV4
		var pbits []bool
		var prefs []*cell.Cell
		for i := 0; i < cnt; i++ {
			mode := mon.Pick(rng, modes)
			if rng.Chance(1, 3) {
				mode = uint8(rng.Uint64())
			}
			if i == k/5%4 && k%2 == 0 {
				mode = 0
			}
			msg := genCell(rng, 1)
			tc := tongoCell(msg)
			payload = append(payload, wallet.RawMessage{Message: &tc, Mode: mode})
			pbits = cat(pbits, rb.UintBits(uint64(mode), 8))
			prefs = append(prefs, msg)
			R.Seen("w34_modes", fmt.Sprint(mode))
		}
		sub, until, seqno := pick32(), pick32(), pick32()
		op := int8(mon.Pick(rng, []int{0, 1, 2, 3, -1, -128, 127, int(int8(rng.Uint64()))}))
		wit := map[string]any{"case": k, "messages": cnt, "payload": fmt.Sprintf("%x", rb.ToBytes(pbits)), "subwallet": sub, "valid_until": until, "seqno": seqno, "op": op}
		R.EvalN(3, fmt.Sprintf("w34/%d/%d", cnt, k))
		R.Seen("w34_message_counts", fmt.Sprint(cnt))
		expect("PayloadV1toV4", marshal("PayloadV1toV4", payload, wit), cell.New(pbits, false, prefs...), wit)
		head := cat(rb.UintBits(uint64(sub), 32), rb.UintBits(uint64(until), 32), rb.UintBits(uint64(seqno), 32))
		expect("MessageV3", marshal("MessageV3", wallet.MessageV3{SubWalletId: sub, ValidUntil: until, Seqno: seqno, RawMessages: payload}, wit),
			cell.New(cat(head, pbits), false, prefs...), wit)
		expect("MessageV4", marshal("MessageV4", wallet.MessageV4{SubWalletId: sub, ValidUntil: until, Seqno: seqno, Op: op, RawMessages: payload}, wit),
			cell.New(cat(head, rb.IntBits(int64(op), 8), pbits), false, prefs...), wit)
	}
}

// ---------------------------------------------------------------- destination cells

// tlb.Marshal(c, v) appends the encoding of v to the cell the caller hands in.
// Whatever that cell is - fresh, parsed from a BOC (by tongo's own writer, by the
// reference writer, through the JSON form), empty or already holding a prefix of
// bits (byte-aligned or not) and a reference - what follows the prefix must be
// exactly the bits and references the schema prescribes for v.
func sectionDestinations() {
	var bitsTypes []reg.Entry
	for _, e := range reg.Types() {
		if reBits.MatchString(e.Name) {
			bitsTypes = append(bitsTypes, e)
		}
	}
	type tail struct {
		NewOwner  tlb.Bits256
		PublicKey tlb.Bits256
		Seqno     uint32
	}
	type bytesKinds struct {
		A uint8
		J [5]byte
		K []byte
		L [33]byte
	}
	const nKinds = 12
	origins := []string{"fresh", "parsed-by-tongo", "parsed-from-reference-writer", "parsed-from-json"}
	n := R.N(3000, 300000)
	for k := 0; k < n; k++ {
		rng := R.Rng("dest", k)
		// ---- the value and its reference encoding
		var v any
		var bits []bool
		var refs []*cell.Cell
		var kind string
		switch k % nKinds {
		case 0:
			var t tail
			copy(t.NewOwner[:], rng.Bytes(32))
			copy(t.PublicKey[:], rng.Bytes(32))
			t.Seqno = uint32(rng.Uint64())
			v, kind = t, "struct-of-hashes"
			bits = cat(rb.BytesBits(t.NewOwner[:]), rb.BytesBits(t.PublicKey[:]), rb.UintBits(uint64(t.Seqno), 32))
		case 1:
			e := mon.Pick(rng, bitsTypes)
			m := reBits.FindStringSubmatch(e.Name)
			w, _ := strconv.Atoi(m[1])
			g := reg.NewGen(rng)
			x := g.New(e.Type)
			raw := make([]byte, x.Len())
			reflect.Copy(reflect.ValueOf(raw), x)
			v, kind, bits = x.Interface(), "BitsN", rb.BytesBits(raw)[:w]
		case 2:
			b := bytesKinds{A: uint8(rng.Uint64()), K: rng.Bytes(rng.Intn(20))}
			copy(b.J[:], rng.Bytes(5))
			copy(b.L[:], rng.Bytes(33))
			v, kind = b, "byte-arrays-and-slice"
			bits = cat(rb.UintBits(uint64(b.A), 8), rb.BytesBits(b.J[:]), rb.BytesBits(b.K), rb.BytesBits(b.L[:]))
		case 3:
			a := genAddr(rng, 1, 2, 2, 3)
			v, kind, bits = a.tongo(), "MsgAddress", a.ref()
		case 4:
			i := genInfo(rng)
			v, kind, bits = i.tongo(), "CommonMsgInfo", i.ref()
		case 5:
			si := genStateInit(rng)
			v, kind = si.tongo(), "StateInit"
			bits, refs = si.ref()
		case 6:
			// update_hashes#72 {X:Type} old_hash:bits256 new_hash:bits256 = HASH_UPDATE X;
			var h tlb.HashUpdate
			copy(h.OldHash[:], rng.Bytes(32))
			copy(h.NewHash[:], rng.Bytes(32))
			v, kind = h, "HashUpdate"
			bits = cat(rb.UintBits(0x72, 8), rb.BytesBits(h.OldHash[:]), rb.BytesBits(h.NewHash[:]))
		case 7:
			txt := rng.Bytes(rng.Intn(60))
			v, kind = tlb.FixedLengthText(txt), "FixedLengthText"
			bits = cat(rb.UintBits(uint64(len(txt)), 8), rb.BytesBits(txt))
		case 8:
			acc := genAccount(rng, genStateInit(rng))
			v, kind = acc.tongo(), "Account"
			bits, refs = acc.ref()
		case 9:
			g := genGrams(rng)
			x := rng.BigBits(256)
			type nums struct {
				G tlb.Grams
				U tlb.Uint256
				H tlb.Bits256
			}
			nv := nums{G: tlb.Grams(g), U: tlb.Uint256(*x)}
			copy(nv.H[:], rng.Bytes(32))
			v, kind = nv, "numbers-then-hash"
			bits = cat(refGrams(g), rb.BigBits(x, 256), rb.BytesBits(nv.H[:]))
		case 10:
			pub, root := rng.Bool(), genRefCell(rng, 1)
			v, kind = tlb.SimpleLib{Public: pub, Root: tongoCell(root)}, "SimpleLib"
			bits, refs = []bool{pub}, []*cell.Cell{root}
		default:
			var sig tlb.Bits512
			copy(sig[:], rng.Bytes(64))
			body := cell.New(rng.Bits(rng.Intn(200)), false)
			v, kind = wallet.SignedMsgBody{Sign: sig, Message: tlb.Any(tongoCell(body))}, "SignedMsgBody"
			bits = cat(rb.BytesBits(sig[:]), body.Bits)
		}
		// ---- the destination
		origin := origins[(k/nKinds)%len(origins)]
		plen := 0
		switch (k / nKinds / len(origins)) % 3 {
		case 1:
			plen = mon.Pick(rng, []int{8, 16, 32, 64, 96, 264, 8 * rng.Range(1, 40)})
		case 2:
			plen = mon.Pick(rng, []int{1, 2, 4, 7, 9, 33, 267, rng.Range(1, 300)})
			if plen%8 == 0 {
				plen++
			}
		}
		if room := 1023 - len(bits); plen > room {
			// the longest prefix of the same alignment class that leaves room for the value
			if plen%8 == 0 {
				plen = room / 8 * 8
			} else if plen = room; plen%8 == 0 {
				plen--
			}
		}
		if plen < 0 || plen+len(bits) > 1023 {
			R.Eval("")
			continue
		}
		prefix := cell.New(rng.Bits(plen), false)
		if plen > 0 && len(refs) < 4 && rng.Chance(1, 3) {
			prefix.Refs = append(prefix.Refs, genCell(rng, 2))
		}
		var dest *boc.Cell
		var derr error
		switch origin {
		case "fresh":
			if plen == 0 {
				dest = boc.NewCell()
			} else {
				t := tongoCell(prefix)
				dest = &t
			}
		case "parsed-by-tongo":
			t := tongoCell(prefix)
			var raw []byte
			if raw, derr = t.ToBocCustom(rng.Bool(), rng.Bool(), false, 0); derr == nil {
				var cs []*boc.Cell
				if cs, derr = boc.DeserializeBoc(raw); derr == nil && len(cs) == 1 {
					dest = cs[0]
				}
			}
		case "parsed-from-reference-writer":
			var cs []*boc.Cell
			if cs, _, derr = bridge.ToTongoParsed([]*cell.Cell{prefix}, rboc.Options{Index: rng.Bool(), CRC: rng.Bool()}); derr == nil && len(cs) == 1 {
				dest = cs[0]
			}
		default:
			t := tongoCell(prefix)
			var js []byte
			if js, derr = t.MarshalJSON(); derr == nil {
				dest = new(boc.Cell)
				derr = dest.UnmarshalJSON(js)
			}
		}
		if dest == nil || derr != nil {
			R.HarnessError("destination cell (%s, %d prefix bits): %v", origin, plen, derr)
			return
		}
		class := origin
		switch {
		case plen == 0:
			class += "/empty"
		case plen%8 == 0:
			class += "/aligned-prefix"
		default:
			class += "/unaligned-prefix"
		}
		wit := map[string]any{"case": k, "value_kind": kind, "destination": class, "prefix_bits": plen, "prefix_refs": len(prefix.Refs), "value": mon.Trunc(fmt.Sprintf("%+v", v), 600)}
		var err error
		if p := mon.Guard(func() { err = tlb.Marshal(dest, v) }); p != nil || err != nil {
			wit["err"] = fmt.Sprint(err, p)
			R.Violation("error@Marshal-into/"+class+"/"+kind, wit)
			continue
		}
		R.Eval(fmt.Sprintf("dest/%s/%s/%d", class, kind, k))
		R.Seen("destination_classes", class)
		R.Seen("destination_value_kinds", kind)
		want := cell.New(cat(prefix.Bits, bits), false, append(append([]*cell.Cell{}, prefix.Refs...), refs...)...)
		expect("Marshal-into/"+class+"/"+kind, dest, want, wit)
	}
}

// ---------------------------------------------------------------- user structs with [N]byte fields

// The reflection codec is open to user-defined structs: a [N]byte field is
// `bits (8*N)` for every N a cell can hold (1..127), not only for the widths
// the library's own BitsN types use. Alone, between other fields (so that a
// wrong width shifts what follows), two arrays in a row; bit-exact against the
// bytes written one after another, and decoded back - from the cell tongo
// produced and from the reference encoding.
func sectionByteArrays() {
	var widths []int
	if R.Thorough() {
		for n := 1; n <= 127; n++ {
			widths = append(widths, n)
		}
	} else {
		widths = []int{1, 2, 3, 8, 20, 32, 33, 48, 63, 64, 65, 66, 80, 96, 100, 126, 127}
	}
	tU8 := reflect.TypeOf(uint8(0))
	fill := func(rng *mon.Rng, v reflect.Value, pattern int) []byte {
		b := rng.Bytes(v.Len())
		switch pattern % 4 {
		case 1:
			for i := range b {
				b[i] = 0xff
			}
		case 2:
			for i := range b {
				b[i] = byte(i + 1)
			}
		}
		reflect.Copy(v, reflect.ValueOf(b))
		return b
	}
	check := func(sig string, v reflect.Value, want []bool, wit map[string]any) {
		R.Eval(fmt.Sprintf("%s/%v", sig, wit["case"]))
		c := marshal(sig, v.Interface(), wit)
		if !expect(sig, c, cell.New(want, false), wit) {
			return
		}
		for _, from := range []string{"produced", "reference"} {
			src := c
			if from == "reference" {
				t := tongoCell(cell.New(want, false))
				src = &t
			}
			src.ResetCounters()
			back := reflect.New(v.Type())
			var err error
			if p := mon.Guard(func() { err = tlb.Unmarshal(src, back.Interface()) }); p != nil || err != nil {
				wit["err"], wit["decoded_from"] = fmt.Sprint(err, p), from
				R.Violation("decode-failed@"+sig, wit)
				return
			}
			if !reflect.DeepEqual(back.Elem().Interface(), v.Interface()) {
				wit["decoded"], wit["decoded_from"] = mon.Trunc(fmt.Sprintf("%+v", back.Elem().Interface()), 800), from
				R.Violation("decode-mismatch@"+sig, wit)
				return
			}
		}
	}
	reps := R.N(4, 24)
	for _, n := range widths {
		arr := reflect.ArrayOf(n, tU8)
		R.Seen("byte_array_widths", fmt.Sprint(n))
		for k := 0; k < reps; k++ {
			rng := R.Rng(fmt.Sprintf("bytearr/%d", n), k)
			// alone
			v := reflect.New(arr).Elem()
			b := fill(rng, v, k)
			wit := map[string]any{"case": fmt.Sprintf("%d/%d", n, k), "width_bytes": n, "bytes": mon.HexTrunc(b, 140)}
			check("user-struct/[N]byte/alone", v, rb.BytesBits(b), wit)
			// between other fields: whatever fits one cell around 8*n bits
			var st reflect.Type
			var pre, post []bool
			var setPre, setPost func(reflect.Value)
			if 8*n+7+32 <= 1023 {
				a, z := rng.Intn(128), uint32(rng.Uint64())
				st = reflect.StructOf([]reflect.StructField{{Name: "A", Type: reflect.TypeOf(tlb.Uint7(0))}, {Name: "X", Type: arr}, {Name: "Z", Type: reflect.TypeOf(uint32(0))}})
				pre, post = rb.UintBits(uint64(a), 7), rb.UintBits(uint64(z), 32)
				setPre, setPost = func(f reflect.Value) { f.SetUint(uint64(a)) }, func(f reflect.Value) { f.SetUint(uint64(z)) }
			} else {
				a, z := rng.Bool(), rng.Intn(32)
				st = reflect.StructOf([]reflect.StructField{{Name: "A", Type: reflect.TypeOf(false)}, {Name: "X", Type: arr}, {Name: "Z", Type: reflect.TypeOf(tlb.Uint5(0))}})
				pre, post = []bool{a}, rb.UintBits(uint64(z), 5)
				setPre, setPost = func(f reflect.Value) { f.SetBool(a) }, func(f reflect.Value) { f.SetUint(uint64(z)) }
			}
			sv := reflect.New(st).Elem()
			setPre(sv.Field(0))
			b = fill(rng, sv.Field(1), k+1)
			setPost(sv.Field(2))
			wit = map[string]any{"case": fmt.Sprintf("%d/%d", n, k), "width_bytes": n, "struct": st.String(), "bytes": mon.HexTrunc(b, 140)}
			check("user-struct/[N]byte/between-fields", sv, cat(pre, rb.BytesBits(b), post), wit)
			// two arrays in a row, then a field
			m := mon.Pick(rng, widths)
			if 8*(n+m)+1+16 <= 1023 {
				st2 := reflect.StructOf([]reflect.StructField{{Name: "A", Type: reflect.TypeOf(false)}, {Name: "X", Type: arr}, {Name: "Y", Type: reflect.ArrayOf(m, tU8)}, {Name: "Z", Type: reflect.TypeOf(uint16(0))}})
				a, z := rng.Bool(), uint16(rng.Uint64())
				tv := reflect.New(st2).Elem()
				tv.Field(0).SetBool(a)
				bx := fill(rng, tv.Field(1), k+2)
				by := fill(rng, tv.Field(2), k+3)
				tv.Field(3).SetUint(uint64(z))
				wit = map[string]any{"case": fmt.Sprintf("%d+%d/%d", n, m, k), "width_bytes": n, "second_width_bytes": m, "struct": st2.String()}
				check("user-struct/[N]byte/two-in-a-row", tv, cat([]bool{a}, rb.BytesBits(bx), rb.BytesBits(by), rb.UintBits(uint64(z), 16)), wit)
			}
		}
	}
}

// ---------------------------------------------------------------- (3) real data

// unique reports whether re-encoding the decoded value is determined by the
// value alone: no non-empty dictionary (label forms are a free choice and
// tongo never emits hml_same) and no type whose encoder is unimplemented.
func unique(v reflect.Value, depth int) bool {
	if depth > 40 {
		return true
	}
	t := v.Type()
	if t.PkgPath() == "github.com/tonkeeper/tongo/tlb" {
		n := t.Name()
		switch {
		case strings.HasPrefix(n, "HashmapAug"), strings.HasPrefix(n, "BinTree["):
			return false
		case strings.HasPrefix(n, "Hashmap["):
			if f := v.FieldByName("keys"); f.IsValid() && f.Len() > 0 {
				return false
			}
			return true
		}
	}
	switch v.Kind() {
	case reflect.Struct:
		if t == reflect.TypeOf(boc.Cell{}) || t == reflect.TypeOf(tlb.Any{}) {
			return true
		}
		for i := 0; i < v.NumField(); i++ {
			if !unique(v.Field(i), depth+1) {
				return false
			}
		}
	case reflect.Pointer, reflect.Interface:
		if !v.IsNil() {
			return unique(v.Elem(), depth+1)
		}
	case reflect.Slice, reflect.Array:
		for i := 0; i < v.Len(); i++ {
			if !unique(v.Index(i), depth+1) {
				return false
			}
		}
	}
	return true
}

func reencode(kind string, v any, srcHash tlb.Bits256, wit map[string]any, isUnique bool) {
	c := boc.NewCell()
	var err error
	if p := mon.Guard(func() { err = tlb.Marshal(c, v) }); p != nil {
		wit["panic"], wit["stack"] = p.Value, mon.Trunc(p.Stack, 1200)
		R.Violation("panic@Marshal(real "+kind+")", wit)
		return
	}
	if err != nil {
		R.Count("real_"+kind+"_encode_errors", 1)
		R.Seen("real_encode_error_classes", kind+": "+mon.PanicClass(err.Error()))
		R.Eval("")
		return
	}
	h, herr := c.Hash()
	R.Eval("real/" + kind + "/" + mon.Hex(srcHash[:8]))
	if !isUnique {
		R.Count("real_"+kind+"_exempt_nonunique", 1)
		return
	}
	R.Count("real_"+kind+"_hash_compared", 1)
	if herr != nil || !bytes.Equal(h, srcHash[:]) {
		wit["got"], wit["want"] = mon.Hex(h), mon.Hex(srcHash[:])
		R.Violation("rehash-mismatch@real-"+kind, wit)
	}
}

// peekAll reads, in place, from every cell an application can reach through
// the exported fields of a decoded value (up to 32 bits and one reference
// each), the way a consumer looks at the op-code of a body or walks into the
// code of a state-init. Returns the number of cells read.
func peekAll(v reflect.Value, depth int) int {
	if depth > 40 || !v.IsValid() {
		return 0
	}
	t := v.Type()
	if (t == reflect.TypeOf(boc.Cell{}) || t == reflect.TypeOf(tlb.Any{})) && v.CanAddr() {
		c := v.Addr().Convert(reflect.TypeOf(&boc.Cell{})).Interface().(*boc.Cell)
		read := 0
		if n := min(c.BitsAvailableForRead(), 32); n > 0 {
			_, _ = c.ReadUint(n)
			read = 1
		}
		if c.RefsAvailableForRead() > 0 {
			_, _ = c.NextRef()
			read = 1
		}
		return read
	}
	n := 0
	switch v.Kind() {
	case reflect.Struct:
		if strings.HasPrefix(t.Name(), "Hashmap") {
			if f := v.FieldByName("values"); f.IsValid() && f.CanAddr() {
				vals := reflect.NewAt(f.Type(), f.Addr().UnsafePointer()).Elem()
				return peekAll(vals, depth+1)
			}
			if f := v.FieldByName("m"); f.IsValid() {
				return peekAll(f, depth+1)
			}
		}
		for i := 0; i < v.NumField(); i++ {
			if t.Field(i).IsExported() {
				n += peekAll(v.Field(i), depth+1)
			}
		}
	case reflect.Pointer:
		if !v.IsNil() {
			n += peekAll(v.Elem(), depth+1)
		}
	case reflect.Slice, reflect.Array:
		if t.Elem().Kind() == reflect.Uint8 {
			return 0
		}
		for i := 0; i < v.Len(); i++ {
			n += peekAll(v.Index(i), depth+1)
		}
	}
	return n
}

// reencodeAfterRead: reading the cells of a decoded record in place does not
// change the record; encoded again it still reproduces the source hash.
func reencodeAfterRead(kind string, v reflect.Value, srcHash tlb.Bits256, wit map[string]any, isUnique bool) {
	if !isUnique {
		return
	}
	n := peekAll(v, 0)
	if n == 0 {
		return
	}
	R.Count("real_"+kind+"_cells_read_in_place", int64(n))
	c := boc.NewCell()
	var err error
	if p := mon.Guard(func() { err = tlb.Marshal(c, v.Interface()) }); p != nil || err != nil {
		wit["err"] = fmt.Sprint(err, p)
		R.Violation("reencode-failed@real-"+kind+"/after-read", wit)
		return
	}
	h, herr := c.Hash()
	R.Eval("real-after-read/" + kind + "/" + mon.Hex(srcHash[:8]))
	if herr != nil || !bytes.Equal(h, srcHash[:]) {
		wit["got"], wit["want"] = mon.Hex(h), mon.Hex(srcHash[:])
		R.Violation("rehash-mismatch@real-"+kind+"/after-read", wit)
	}
}

func sectionReal() {
	blocks := []string{"tlb/testdata/block-1/block.bin", "tlb/testdata/block-3/block.bin", "tlb/testdata/block-4/block.bin", "tlb/testdata/block-5/block.bin", "ton/testdata/raw-13516764.bin"}
	if R.Thorough() {
		blocks = append(blocks, "tlb/testdata/block-2/block.bin")
	}
	for _, name := range blocks {
		raw, err := os.ReadFile(filepath.Join(mon.RepoRoot(), name))
		if err != nil {
			R.HarnessError("%v", err)
			return
		}
		cells, err := boc.DeserializeBoc(raw)
		if err != nil || len(cells) != 1 {
			R.Violation("error@DeserializeBoc(real)", map[string]any{"file": name})
			continue
		}
		var blk tlb.Block
		if p := mon.Guard(func() { err = tlb.Unmarshal(cells[0], &blk) }); p != nil || err != nil {
			R.Violation("error@Unmarshal(real block)", map[string]any{"file": name, "err": fmt.Sprint(err, p)})
			continue
		}
		var txs []*tlb.Transaction
		mon.Guard(func() { txs = blk.AllTransactions() })
		for _, tx := range txs {
			wit := map[string]any{"file": name, "lt": tx.Lt, "account": mon.Hex(tx.AccountAddr[:])}
			txUnique := unique(reflect.ValueOf(tx).Elem(), 0)
			reencode("transaction", *tx, tx.Hash(), wit, txUnique)
			R.Seen("real_transaction_descr", string(tx.Description.SumType))
			if tx.Msgs.InMsg.Exists {
				m := tx.Msgs.InMsg.Value.Value
				w2 := map[string]any{"file": name, "tx_lt": tx.Lt, "which": "in_msg"}
				u := unique(reflect.ValueOf(&m).Elem(), 0)
				reencode("message", m, m.Hash(false), w2, u)
				reencodeAfterRead("message", reflect.ValueOf(&m).Elem(), m.Hash(false), w2, u)
			}
			for i, om := range tx.Msgs.OutMsgs.Values() {
				m := om.Value
				w2 := map[string]any{"file": name, "tx_lt": tx.Lt, "which": fmt.Sprintf("out_msg[%d]", i)}
				u := unique(reflect.ValueOf(&m).Elem(), 0)
				reencode("message", m, m.Hash(false), w2, u)
				reencodeAfterRead("message", reflect.ValueOf(&m).Elem(), m.Hash(false), w2, u)
				// the state-init of a message is re-encoded as part of it; also alone when stored in a reference
			}
			reencodeAfterRead("transaction", reflect.ValueOf(tx).Elem(), tx.Hash(), wit, txUnique)
		}
		R.Seen("real_blocks", fmt.Sprintf("%s: %d transactions", name, len(txs)))
	}
}

func main() {
	tier := "quick"
	if len(os.Args) > 1 {
		tier = os.Args[1]
	}
	R = mon.Start("C04", tier)
	R.Rule = "(1) every UintN/IntN/VarUIntegerN/BitsN type of the registry at its boundary values, Go integer kinds, Unary, Magic tags (# and $), the first bits of every tagged struct and of every constructor of every reflectively encoded union, Maybe/Either/EitherRef/Ref and the ^/maybe/maybe^ field tags, compared bit by bit with an independent bit-list encoder; (2) MsgAddress (4 kinds, anycast), Grams, CurrencyCollection, CommonMsgInfo (3 kinds), StateInit, Message (init none/inline/ref x body inline/ref) and ton.CreateExternalMessage over random values against reference encoders transcribed from block.tlb (bits and refs, recursively); SimpleLib, Account (none/uninit/active/frozen) and ShardAccount; where the schema has ^Cell (state-init code/data, SimpleLib root, vm_stk_cell/builder) a third of the cells are exotic (library, Merkle proof/update, pruned branch) and a quarter of the referenced message bodies are library cells: the reference must point to that very cell (type compared, and the representation hash against the reference model when no pruned branch is involved); VM stacks also built with Put (bottom value first), stack slices covering a part of their cell (decoded from a reference encoding, re-encoded, and VmCellSlice.Cell() against the sub-slice), Int257FromInt64 / VarUInteger16FromInt64 at int64 boundaries; the wallet-v5 value types W5Actions (0..10 actions, 255 at the thorough tier, distinct modes and messages), W5ExtendedActions, MessageV5 (3 constructors x actions present/absent x extended actions) and MessageV5Beta against a transcription of the wallet-v5 schema; PayloadV1toV4 / MessageV3 / MessageV4 (0..4 messages, modes incl. 0, 1, 3, 128, 255, edge values of subwallet / valid-until / seqno / op) against the wallet v3/v4 body layout; destination classes of tlb.Marshal(c, v): c fresh / parsed from a BOC written by tongo, by the reference writer, or through the JSON form, each empty / with a byte-aligned / with an unaligned prefix of bits (and a reference), for 12 kinds of values with hash, BitsN, byte-array, address, number and ^Cell fields: what follows the prefix equals the reference encoding; user-defined structs (built with reflect.StructOf) with [N]byte fields, N = 1..127 bytes (every N at the thorough tier, a spread around 63/64/65, 96, 127 at quick), alone / between other fields / two in a row, bit-exact and decoded back from the produced and from the reference cell; (3) every transaction and message of the real blocks (tlb/testdata and ton/testdata/raw-13516764.bin) re-encoded and compared by hash with its source cell wherever the encoding is unique (no non-empty dictionary, no unimplemented encoder), and once more after every cell of the decoded record has been read in place (32 bits, one reference); non-trivial = an encoding that was compared; distinct = distinct (structure, shape, value/case)"
	R.Assume("reference encoders in props/c04 are literal transcriptions of the block.tlb constructors quoted above them; dictionaries are kept empty in (2) because label forms are a free choice")
	R.Assume("source-cell hashes of real records are the ones tongo reports (Transaction.Hash, Message.Hash(false)); that they equal the reference hash of a cell of the block is C16's business")
	R.Assume("exotic cells are handed to tongo as in-memory cells (boc.NewCellExotic) with ordinary children; a pruned branch below a built cell is compared structurally only, because cells built in memory carry no level mask (hash and level of such trees are C02's business)")
	R.Assume("reading a cell of a decoded value in place (ReadUint, NextRef) moves cursors but is not a change of the TL-B value")
	R.Assume("wallet bodies as built by the wallet API (v3/v4/v5/highload, signatures) are checked bit-level by C14's reference decoder/verifier; here the v5 value types (W5Actions, W5ExtendedActions, MessageV5, MessageV5Beta) are encoded with tlb.Marshal and compared with a transcription of the wallet-v5 schema; a Go action list names the actions from the outermost OutList cell inwards (what the decoder returns and C14's reference reads)")
	sectionPrimitives()
	sectionCombinators()
	sectionStructures()
	sectionVmStack()
	sectionWalletV5()
	sectionWalletV3V4()
	sectionDestinations()
	sectionByteArrays()
	sectionReal()
	R.Sample(map[string]any{"kind": "Message", "example": "int_msg_info$0 + addr_std with anycast + init as ^StateInit + inline body: bits and refs equal the reference transcription"})
	os.Exit(R.Finish())
}
