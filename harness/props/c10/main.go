// C10 — lite-server API bindings speak exactly the wire format of lite_api.tl.
//
// Oracle: harness/ref/tl reads <repo>/liteclient/lite_api.tl itself and
// interprets abstract values; tongo's generated types (found by the registry
// generator, props/c10/gen) are populated positionally by reflection.
// See DESIGN.md §5 C10.
package main

import (
	"bytes"
	"context"
	"encoding/binary"
	"encoding/json"
	"fmt"
	"go/format"
	"net"
	"os"
	"os/exec"
	"path/filepath"
	"reflect"
	"sort"
	"strings"
	"sync"
	"time"

	"github.com/tonkeeper/tongo/liteclient"
	ttl "github.com/tonkeeper/tongo/tl"
	"github.com/tonkeeper/tongo/ton"

	"verifharness/mon"
	"verifharness/ref/adnl"
	rtl "verifharness/ref/tl"
	"verifharness/ref/tl/bind"
)

var (
	R *mon.Run // parent only
	K sink     // where the sections report: the Run (parent) or a Worker (child)
	S *rtl.Schema
)

type sink interface {
	mon.Sink
	Rng(label string, idx int) *mon.Rng
	Thorough() bool
}

func N(quick, thorough int) int {
	if K.Thorough() {
		return thorough
	}
	return quick
}

func herr(format string, a ...any) {
	switch x := K.(type) {
	case *mon.Run:
		x.HarnessError(format, a...)
	case *mon.Worker:
		x.HarnessError(fmt.Sprintf(format, a...))
	}
}

// begin / end bracket a call into tongo that could take the process down
// (a mis-decoded count can make tl.decodeVector allocate without bound).
func begin(caseID string, input []byte) {
	if w, ok := K.(*mon.Worker); ok {
		if len(input) > 4096 {
			input = input[:4096]
		}
		w.Begin(caseID, []byte(mon.Hex(input)))
	}
}

func end() {
	if w, ok := K.(*mon.Worker); ok {
		w.End()
	}
}

// ---- finding the Go side of a schema line ----

// norm reduces a TL or Go identifier to lower-case letters and digits, so that
// "liteServer.transactionId3" + "C" meets "LiteServerTransactionId3C" without
// re-implementing tongo's camel-casing.
func norm(s string) string {
	var b strings.Builder
	for _, c := range strings.ToLower(s) {
		if c >= 'a' && c <= 'z' || c >= '0' && c <= '9' {
			b.WriteRune(c)
		}
	}
	return b.String()
}

type binding struct {
	what   string // "type" | "sum" | "request"
	tlName string
	goName string
	goType reflect.Type
	ctors  []*rtl.Combinator // the constructors a value of this Go type can hold
	boxed  bool              // MarshalTL writes constructor ids (multi-constructor type)
	typ    rtl.Type
}

func (b *binding) encode(o *rtl.Object) ([]byte, error) {
	if b.boxed {
		return S.Encode(b.typ, o)
	}
	return S.EncodeFields(b.ctors[0], o)
}

func buildBindings(report bool) []*binding {
	byNorm := map[string]string{}
	for name := range registryTypes {
		byNorm[norm(name)] = name
	}
	used := map[string]bool{}
	var out []*binding
	add := func(b *binding, key string) {
		goName, ok := byNorm[key]
		if !ok {
			if !report {
				return
			}
			K.Violation("missing-binding@"+b.what+"/"+b.tlName, map[string]any{"schema_name": b.tlName, "looked_for": key,
				"note": "lite_api.tl declares it, liteclient/generated.go has no type with MarshalTL/UnmarshalTL for it"})
			return
		}
		used[goName] = true
		b.goName, b.goType = goName, registryTypes[goName]
		out = append(out, b)
	}
	for _, tn := range S.TypeNames() {
		cs := S.TypeConstructors(tn)
		if len(cs) == 1 {
			add(&binding{what: "type", tlName: cs[0].Name, ctors: cs, typ: rtl.Type{Kind: rtl.KBare, Name: cs[0].Name}}, norm(cs[0].Name)+"c")
		} else {
			add(&binding{what: "sum", tlName: tn, ctors: cs, boxed: true, typ: rtl.Type{Kind: rtl.KBoxed, Name: tn}}, norm(tn))
		}
	}
	for _, f := range S.Functions {
		add(&binding{what: "request", tlName: f.Name, ctors: []*rtl.Combinator{f}}, norm(f.Name)+"request")
	}
	var extra []string
	for name := range registryTypes {
		if !used[name] {
			extra = append(extra, name)
		}
	}
	sort.Strings(extra)
	for _, name := range extra {
		if !report {
			break
		}
		K.Violation("binding-without-schema-line@"+name, map[string]any{"go_type": name,
			"note": "liteclient/generated.go has a TL codec for a type that no line of lite_api.tl produces"})
	}
	return out
}

// ---- shape classes for fingerprints ----

func lenClass(n int) string {
	switch {
	case n <= 4:
		return fmt.Sprint(n)
	case n < 253:
		return "short"
	case n <= 256:
		return fmt.Sprint(n)
	case n < 65535:
		return "long"
	default:
		return fmt.Sprint(n)
	}
}

// shape summarises a value: byte-string length classes and vector length classes.
func shape(v any, sb *strings.Builder) {
	switch x := v.(type) {
	case []byte:
		sb.WriteString("b" + lenClass(len(x)) + ",")
	case string:
		sb.WriteString("s" + lenClass(len(x)) + ",")
	case []any:
		switch {
		case len(x) < 3:
			fmt.Fprintf(sb, "v%d[", len(x))
		default:
			sb.WriteString("vN[")
		}
		if len(x) > 0 {
			shape(x[0], sb)
		}
		sb.WriteString("]")
	case *rtl.Object:
		sb.WriteString(x.Ctor + "{")
		for _, f := range x.Fields {
			if f == nil {
				sb.WriteString("-,")
			} else {
				shape(f, sb)
			}
		}
		sb.WriteString("}")
	}
}

func firstDiff(a, b []byte) int {
	n := len(a)
	if len(b) < n {
		n = len(b)
	}
	for i := 0; i < n; i++ {
		if a[i] != b[i] {
			return i
		}
	}
	return n
}

func window(b []byte, at int) string {
	lo, hi := at-16, at+16
	if lo < 0 {
		lo = 0
	}
	if hi > len(b) {
		hi = len(b)
	}
	return fmt.Sprintf("[%d:%d]=%x", lo, hi, b[lo:hi])
}

func valueWitness(o any) any {
	j := rtl.ToJSON(o)
	s := fmt.Sprint(j)
	if len(s) > 6000 {
		return mon.Trunc(s, 6000)
	}
	return j
}

var sentinel = []byte{0xde, 0xad, 0xbe, 0xef, 0x01, 0x02, 0x03}

// checkValue compares one abstract value in both directions.
func checkValue(b *binding, o *rtl.Object, caseID string) {
	var sb strings.Builder
	shape(o, &sb)
	fp := b.goName + "/" + sb.String()
	K.Eval(fp)
	K.Seen("go_types_exercised", b.goName)
	K.Seen("schema_lines_exercised", o.Ctor)
	wit := map[string]any{"go_type": b.goName, "schema_line": S.Line(o.Ctor), "case": caseID, "value": valueWitness(o)}

	want, err := b.encode(o)
	if err != nil {
		herr("reference encoder failed on its own value (%s): %v", b.tlName, err)
		return
	}
	begin(b.goName+"|"+caseID, want)
	defer end()
	// Go value
	gv := reflect.New(b.goType)
	if err := bind.PopulateObject(S, o, gv.Elem()); err != nil {
		wit["err"] = err.Error()
		K.Violation("shape-mismatch@"+b.goName, wit)
		return
	}
	// encode: tl.Marshal (dispatches to MarshalTL)
	var got []byte
	p := mon.Guard(func() { got, err = ttl.Marshal(gv.Elem().Interface()) })
	if p != nil {
		wit["panic"] = p.Value
		K.Violation("panic@"+p.Site+"/tl.Marshal/"+b.goName, wit)
		return
	}
	if err != nil {
		wit["err"] = err.Error()
		K.Violation("marshal-error@"+b.goName, wit)
		return
	}
	// the results of the previous few Marshal calls are still held: they must still be the bytes of THEIR values
	recheckKept(b.goName)
	if !bytes.Equal(got, want) {
		at := firstDiff(got, want)
		wit["first_diff_at"], wit["got_len"], wit["want_len"] = at, len(got), len(want)
		wit["got"], wit["want"] = window(got, at), window(want, at)
		K.Violation("marshal-mismatch@"+b.goName, wit)
		return
	}
	keep(b.goName, caseID, S.Line(o.Ctor), got, want)
	// decode the reference bytes, followed by a sentinel that must stay unread
	dv := reflect.New(b.goType)
	rd := bytes.NewReader(append(append([]byte{}, want...), sentinel...))
	p = mon.Guard(func() { err = ttl.Unmarshal(rd, dv.Interface()) })
	if p != nil {
		wit["panic"] = p.Value
		K.Violation("panic@"+p.Site+"/tl.Unmarshal/"+b.goName, wit)
		return
	}
	if err != nil {
		wit["err"], wit["bytes"] = err.Error(), mon.HexTrunc(want, 512)
		K.Violation("unmarshal-error@"+b.goName, wit)
		return
	}
	if rd.Len() != len(sentinel) {
		wit["unread"], wit["expected_unread"] = rd.Len(), len(sentinel)
		K.Violation("unmarshal-consumed-wrong-length@"+b.goName, wit)
		return
	}
	back, err := bind.ExtractObject(S, b.ctors[0], dv.Elem())
	if err != nil {
		wit["err"] = err.Error()
		K.Violation("unmarshal-bad-value@"+b.goName, wit)
		return
	}
	if d := rtl.Diff(S, o, back); d != "" {
		wit["diff"] = d
		K.Violation("unmarshal-mismatch@"+b.goName, wit)
		return
	}
	// presence of pointer-typed optionals must follow the mode bit exactly
	if d := presence(o, dv.Elem()); d != "" {
		wit["diff"] = d
		K.Violation("optional-presence@"+b.goName, wit)
		return
	}
	// the same bytes handed over in short reads (an io.Reader may return fewer bytes than asked for):
	// the layout is a property of the byte sequence, not of how the reader cuts it
	if len(want) > 0 {
		cv := reflect.New(b.goType)
		under := bytes.NewReader(append(append([]byte{}, want...), sentinel...))
		p = mon.Guard(func() { err = ttl.Unmarshal(&chunkReader{r: under, n: len(want)}, cv.Interface()) })
		K.Count("short_read_decodes", 1)
		if p != nil {
			wit["panic"] = p.Value
			K.Violation("panic@"+p.Site+"/tl.Unmarshal(short reads)/"+b.goName, wit)
			return
		}
		var back2 *rtl.Object
		if err == nil {
			back2, err = bind.ExtractObject(S, b.ctors[0], cv.Elem())
		}
		if err != nil || under.Len() != len(sentinel) || rtl.Diff(S, o, back2) != "" {
			wit["err"], wit["unread"], wit["reader"] = fmt.Sprint(err), under.Len(), "returns 1..5 bytes per Read"
			K.Violation("unmarshal-short-reads@"+b.goName, wit)
			return
		}
	}
	// a boxed value that starts with another 32-bit id than one of this type's schema lines is not a value of the type
	if b.boxed && len(want) >= 4 {
		for _, id := range foreignIDs(b, binary.LittleEndian.Uint32(want[:4])) {
			bad := append(binary.LittleEndian.AppendUint32(nil, id), want[4:]...)
			fv := reflect.New(b.goType)
			p = mon.Guard(func() { err = ttl.Unmarshal(bytes.NewReader(bad), fv.Interface()) })
			K.Count("foreign_id_decodes", 1)
			if p != nil {
				wit["panic"] = p.Value
				K.Violation("panic@"+p.Site+"/tl.Unmarshal(foreign id)/"+b.goName, wit)
				return
			}
			if err == nil {
				wit["offered_id"], wit["decoded"] = fmt.Sprintf("%08x", id), mon.Trunc(fmt.Sprintf("%+v", fv.Elem().Interface()), 600)
				K.Violation("foreign-id-accepted@"+b.goName, wit)
				return
			}
		}
	}
}

// keptResult is the result of an earlier tl.Marshal that the check keeps hold of, as a caller that
// prepares several encoded values does. A returned byte slice belongs to the caller: whatever is
// marshalled afterwards, it must keep spelling the value it was returned for.
type keptResult struct {
	goName, caseID, line string
	got, want            []byte
}

var kept []keptResult // per process; checkValue runs on one goroutine

func keep(goName, caseID, line string, got, want []byte) {
	if len(got) == 0 || len(got) > 1<<20 {
		return
	}
	if len(kept) >= 4 {
		kept = kept[1:]
	}
	kept = append(kept, keptResult{goName, caseID, line, got, want})
}

// recheckKept runs right after a Marshal call (of a value of Go type `after`).
func recheckKept(after string) {
	for i := 0; i < len(kept); i++ {
		r := kept[i]
		K.Count("kept_marshal_results_rechecked", 1)
		if bytes.Equal(r.got, r.want) {
			continue
		}
		at := firstDiff(r.got, r.want)
		K.Violation("marshal-result-changed-afterwards@"+r.goName, map[string]any{"go_type": r.goName, "schema_line": r.line, "case": r.caseID,
			"changed_after_marshalling_a": after, "marshal_calls_in_between": len(kept) - i, "first_diff_at": at,
			"now": window(r.got, at), "reference": window(r.want, at),
			"note": "the byte slice returned by tl.Marshal was equal to the reference encoding when it was returned and no longer is"})
		kept = append(kept[:i], kept[i+1:]...)
		i--
	}
}

// chunkReader hands out the underlying bytes in pieces of 1..5 bytes.
type chunkReader struct {
	r *bytes.Reader
	n int
	k int
}

func (c *chunkReader) Read(p []byte) (int, error) {
	c.k++
	m := 1 + (c.k*7+c.n)%5
	if m > len(p) {
		m = len(p)
	}
	return c.r.Read(p[:m])
}

// foreignIDs returns ids that no constructor of b's type carries: the id of
// another schema line and a one-bit neighbour of the right id.
func foreignIDs(b *binding, right uint32) []uint32 {
	own := map[uint32]bool{}
	for _, c := range b.ctors {
		own[c.ID] = true
	}
	var out []uint32
	for _, c := range S.Constructors {
		if !own[c.ID] && c.HasID {
			out = append(out, c.ID)
			break
		}
	}
	if x := right ^ 1; !own[x] {
		out = append(out, x)
	}
	return out
}

// presence re-checks the top-level optional pointer fields of a decoded
// constructor struct: non-nil iff the abstract value has the field.
func presence(o *rtl.Object, gv reflect.Value) string {
	c := S.Constructor(o.Ctor)
	if c == nil {
		c = S.Function(o.Ctor)
	}
	if gv.NumField() > 0 && gv.Type().Field(0).Name == "SumType" {
		for i := 1; i < gv.NumField(); i++ {
			if gv.Type().Field(i).Name == gv.Field(0).String() {
				gv = gv.Field(i)
				break
			}
		}
	}
	gi := 0
	for si, f := range c.Fields {
		if f.Type.Kind == rtl.KTrue {
			continue
		}
		if gi >= gv.NumField() {
			return ""
		}
		fv := gv.Field(gi)
		gi++
		if f.Cond && fv.Kind() == reflect.Pointer && fv.IsNil() != (o.Fields[si] == nil) {
			return fmt.Sprintf("%s.%s: pointer nil=%v but the mode bit says present=%v", c.Name, f.Name, fv.IsNil(), o.Fields[si] != nil)
		}
	}
	return ""
}

func hasDirectBytes(c *rtl.Combinator) bool {
	for _, f := range c.Fields {
		if (f.Type.Kind == rtl.KBytes || f.Type.Kind == rtl.KString) && !f.Cond {
			return true
		}
	}
	return false
}

// sectionCodecs: every declaration and function, both directions.
func sectionCodecs(bs []*binding) {
	extra := N(40, 1500)
	bigDone := 0
	vecDone := 0
	for _, b := range bs {
		for _, c := range b.ctors {
			// (a) every subset of the mode bits this line consults x every boundary length
			bits := c.FlagBits()
			var flagNames []string
			for n := range bits {
				flagNames = append(flagNames, n)
			}
			sort.Strings(flagNames)
			type fb struct {
				name string
				bit  int
			}
			var all []fb
			for _, n := range flagNames {
				for _, bit := range bits[n] {
					all = append(all, fb{n, bit})
				}
			}
			if len(all) > 10 {
				all = all[:10]
			}
			K.Count("mode_bits_total", int64(len(all)))
			for sub := 0; sub < 1<<uint(len(all)); sub++ {
				flags, mask := map[string]uint32{}, map[string]uint32{}
				for i, x := range all {
					mask[x.name] |= 1 << uint(x.bit)
					if sub>>uint(i)&1 == 1 {
						flags[x.name] |= 1 << uint(x.bit)
					}
				}
				for li, L := range rtl.BoundaryLens {
					rng := K.Rng("codec/"+c.Name, sub*64+li)
					first := true
					opts := &rtl.GenOpts{Flags: flags, FlagMask: mask, Ctor: c.Name, BytesLen: func(r rtl.Rand) int {
						if first || r.Intn(3) == 0 {
							first = false
							return L
						}
						return rtl.DefaultBytesLen(r)
					}}
					o := S.RandomObject(rng, c, opts)
					checkValue(b, o, fmt.Sprintf("codec/%s sub=%d len=%d", c.Name, sub, L))
					K.Seen("mode_subsets", fmt.Sprintf("%s:%0*b", c.Name, len(all), sub))
					if len(all) > 0 && sub == 1<<uint(len(all))-1 && li == 2 {
						enc, _ := b.encode(o)
						K.Sample(map[string]any{"kind": "codec", "go_type": b.goName, "schema_line": S.Line(c.Name), "value": valueWitness(o), "reference_bytes": mon.HexTrunc(enc, 96)})
					}
				}
			}
			// (b) free random values
			for k := 0; k < extra; k++ {
				rng := K.Rng("codec-rand/"+c.Name, k)
				o := S.RandomObject(rng, c, &rtl.GenOpts{Ctor: c.Name})
				checkValue(b, o, fmt.Sprintf("codec-rand/%s/%d", c.Name, k))
			}
			// (d) vectors with counts around and beyond 1024 items (the count is a full 32-bit field)
			hasVec := false
			for _, f := range c.Fields {
				if f.Type.Kind == rtl.KVector {
					hasVec = true
				}
			}
			if hasVec && (vecDone < N(3, 1000)) {
				vecDone++
				for li, L := range []int{1023, 1024, 1025, 1500, 4096} {
					if !K.Thorough() && li%2 == 1 && vecDone > 1 {
						continue
					}
					rng := K.Rng("codec-longvec/"+c.Name, li)
					o := S.RandomObject(rng, c, &rtl.GenOpts{Ctor: c.Name,
						VecLen: func(r rtl.Rand, depth int) int {
							if depth <= 1 {
								return L
							}
							return r.Intn(2)
						},
						BytesLen: func(r rtl.Rand) int { return r.Intn(6) }})
					checkValue(b, o, fmt.Sprintf("codec-longvec/%s/%d", c.Name, L))
					K.Seen("long_vector_counts", fmt.Sprint(L))
				}
			}
			// (c) lengths around 2^16 (and 2^24-1 in thorough) for a few lines with a plain bytes field
			if hasDirectBytes(c) && bigDone < N(3, 8) {
				bigDone++
				lens := []int{65535, 65536, 65537}
				if K.Thorough() {
					lens = append(lens, 1<<24-1, 1<<24-2)
				}
				for li, L := range lens {
					rng := K.Rng("codec-big/"+c.Name, li)
					first := true
					o := S.RandomObject(rng, c, &rtl.GenOpts{Ctor: c.Name, BytesLen: func(r rtl.Rand) int {
						if first {
							first = false
							return L
						}
						return r.Intn(8)
					}})
					checkValue(b, o, fmt.Sprintf("codec-big/%s/%d", c.Name, L))
					K.Seen("big_lengths", fmt.Sprint(L))
				}
			}
		}
	}
}

// sectionPrimitives: tl.Marshal / tl.Unmarshal on plain Go values, every
// byte-string length 0..1100 and the 2^16 / 2^24 boundaries.
func sectionPrimitives() {
	lens := make([]int, 0, 1200)
	for L := 0; L <= 1100; L++ {
		lens = append(lens, L)
	}
	lens = append(lens, 65535, 65536)
	if K.Thorough() {
		lens = append(lens, 1<<24-1)
	}
	for _, L := range lens {
		rng := K.Rng("prim-bytes", L)
		begin(fmt.Sprintf("tl.Marshal/Unmarshal(byte string)|length %d", L), nil)
		data := rng.Bytes(L)
		want := rtl.EncodeBytes(data)
		for _, kind := range []string{"[]byte", "string"} {
			var got []byte
			var err error
			var in any = data
			if kind == "string" {
				in = string(data)
			}
			p := mon.Guard(func() { got, err = ttl.Marshal(in) })
			K.Eval("prim/" + kind + "/" + lenClass(L) + fmt.Sprint(L%4))
			wit := map[string]any{"kind": kind, "length": L}
			if p != nil || err != nil {
				wit["err"] = fmt.Sprint(err, p)
				K.Violation("marshal-error@tl.Marshal("+kind+")", wit)
				continue
			}
			if !bytes.Equal(got, want) {
				at := firstDiff(got, want)
				wit["first_diff_at"], wit["got_len"], wit["want_len"], wit["got"], wit["want"] = at, len(got), len(want), window(got, at), window(want, at)
				K.Violation("marshal-mismatch@tl.Marshal("+kind+")", wit)
				continue
			}
			rd := bytes.NewReader(append(append([]byte{}, want...), sentinel...))
			var backB []byte
			var backS string
			p = mon.Guard(func() {
				if kind == "string" {
					err = ttl.Unmarshal(rd, &backS)
					backB = []byte(backS)
				} else {
					err = ttl.Unmarshal(rd, &backB)
				}
			})
			if p != nil || err != nil {
				wit["err"] = fmt.Sprint(err, p)
				K.Violation("unmarshal-error@tl.Unmarshal("+kind+")", wit)
				continue
			}
			if !bytes.Equal(backB, data) || rd.Len() != len(sentinel) {
				wit["unread"] = rd.Len()
				K.Violation("unmarshal-mismatch@tl.Unmarshal("+kind+")", wit)
			}
		}
		if el := ttl.EncodeLength(L); !bytes.Equal(el, want[:len(el)]) || (L < 254) != (len(el) == 1) {
			K.Violation("marshal-mismatch@tl.EncodeLength", map[string]any{"length": L, "got": mon.Hex(el)})
		}
	}
	end()
	// integers, Bool, vectors of primitives
	for i := 0; i < N(300, 5000); i++ {
		rng := K.Rng("prim-int", i)
		u32, u64 := uint32(rng.Uint64()), rng.Uint64()
		if i < 8 {
			u32, u64 = []uint32{0, 1, 0x7fffffff, 0x80000000, 0xffffffff, 0xfe, 0xff, 0x100}[i], []uint64{0, 1, 1<<63 - 1, 1 << 63, ^uint64(0), 0xfe, 0xff, 0x100}[i]
		}
		n := rng.Intn(6)
		vec := make([]uint64, n)
		var vecAbs []any
		for k := range vec {
			vec[k] = rng.Uint64()
			vecAbs = append(vecAbs, vec[k])
		}
		if vecAbs == nil {
			vecAbs = []any{}
		}
		type pc struct {
			name string
			in   any
			t    rtl.Type
			abs  any
		}
		long := rtl.Type{Kind: rtl.KLong}
		for _, c := range []pc{
			{"uint32", u32, rtl.Type{Kind: rtl.KInt}, u32},
			{"int32", int32(u32), rtl.Type{Kind: rtl.KInt}, u32},
			{"uint64", u64, long, u64},
			{"int64", int64(u64), long, u64},
			{"bool", u32&1 == 1, rtl.Type{Kind: rtl.KBool}, u32&1 == 1},
			{"[]uint64", vec, rtl.Type{Kind: rtl.KVector, Elem: &long}, vecAbs},
		} {
			want, _ := S.Encode(c.t, c.abs)
			var got []byte
			var err error
			p := mon.Guard(func() { got, err = ttl.Marshal(c.in) })
			K.Eval(fmt.Sprintf("prim/%s/%d", c.name, i%16))
			wit := map[string]any{"go_type": c.name, "value": fmt.Sprint(c.in)}
			if p != nil || err != nil || !bytes.Equal(got, want) {
				wit["got"], wit["want"], wit["err"] = mon.Hex(got), mon.Hex(want), fmt.Sprint(err, p)
				K.Violation("marshal-mismatch@tl.Marshal("+c.name+")", wit)
				continue
			}
			out := reflect.New(reflect.TypeOf(c.in))
			rd := bytes.NewReader(append(append([]byte{}, want...), sentinel...))
			p = mon.Guard(func() { err = ttl.Unmarshal(rd, out.Interface()) })
			if p != nil || err != nil || rd.Len() != len(sentinel) {
				wit["err"] = fmt.Sprint(err, p)
				K.Violation("unmarshal-error@tl.Unmarshal("+c.name+")", wit)
				continue
			}
			back, err := bind.Extract(S, c.t, out.Elem())
			if err != nil || !rtl.Equal(back, c.abs) {
				wit["decoded"] = fmt.Sprint(out.Elem().Interface())
				K.Violation("unmarshal-mismatch@tl.Unmarshal("+c.name+")", wit)
			}
		}
	}
}

// sectionPrimitiveVectors: tl.Marshal / tl.Unmarshal on Go slices of every
// element kind the schema language has (the generated code hands its vector
// fields to these two functions), also through a pointer (how the generated
// code passes optional fields).
func sectionPrimitiveVectors() {
	elem := func(k rtl.Kind) *rtl.Type { return &rtl.Type{Kind: k} }
	kinds := []struct {
		name string
		goT  reflect.Type
		t    rtl.Type
	}{
		{"[]uint32", reflect.TypeOf([]uint32(nil)), rtl.Type{Kind: rtl.KVector, Elem: elem(rtl.KInt)}},
		{"[]bool", reflect.TypeOf([]bool(nil)), rtl.Type{Kind: rtl.KVector, Elem: elem(rtl.KBool)}},
		{"[]string", reflect.TypeOf([]string(nil)), rtl.Type{Kind: rtl.KVector, Elem: elem(rtl.KString)}},
		{"[][]byte", reflect.TypeOf([][]byte(nil)), rtl.Type{Kind: rtl.KVector, Elem: elem(rtl.KBytes)}},
		{"[]tl.Int256", reflect.TypeOf([]ttl.Int256(nil)), rtl.Type{Kind: rtl.KVector, Elem: elem(rtl.KInt256)}},
		{"[][]uint64", reflect.TypeOf([][]uint64(nil)), rtl.Type{Kind: rtl.KVector, Elem: &rtl.Type{Kind: rtl.KVector, Elem: elem(rtl.KLong)}}},
	}
	for i := 0; i < N(60, 1500); i++ {
		for _, c := range kinds {
			rng := K.Rng("prim-vec/"+c.name, i)
			abs := S.Random(rng, c.t, &rtl.GenOpts{VecLen: func(r rtl.Rand, d int) int { return r.Intn(5) }, BytesLen: func(r rtl.Rand) int {
				if r.Intn(2) == 0 {
					return rtl.BoundaryLens[r.Intn(len(rtl.BoundaryLens))]
				}
				return r.Intn(12)
			}})
			want, _ := S.Encode(c.t, abs)
			gv := reflect.New(c.goT)
			K.Eval(fmt.Sprintf("prim-vec/%s/%d", c.name, len(abs.([]any))))
			K.Seen("primitive_vector_kinds", c.name)
			wit := map[string]any{"go_type": c.name, "value": valueWitness(abs)}
			if err := bind.Populate(S, c.t, abs, gv.Elem()); err != nil {
				herr("prim-vec: %v", err)
				return
			}
			for _, how := range []string{"value", "pointer"} {
				in := gv.Elem().Interface()
				if how == "pointer" {
					in = gv.Interface()
				}
				var got []byte
				var err error
				p := mon.Guard(func() { got, err = ttl.Marshal(in) })
				if p != nil || err != nil || !bytes.Equal(got, want) {
					wit["got"], wit["want"], wit["err"], wit["passed_as"] = mon.HexTrunc(got, 200), mon.HexTrunc(want, 200), fmt.Sprint(err, p), how
					K.Violation("marshal-mismatch@tl.Marshal("+c.name+")", wit)
					break
				}
			}
			out := reflect.New(c.goT)
			rd := bytes.NewReader(append(append([]byte{}, want...), sentinel...))
			var err error
			p := mon.Guard(func() { err = ttl.Unmarshal(rd, out.Interface()) })
			if p != nil || err != nil || rd.Len() != len(sentinel) {
				wit["err"], wit["unread"] = fmt.Sprint(err, p), rd.Len()
				K.Violation("unmarshal-error@tl.Unmarshal("+c.name+")", wit)
				continue
			}
			back, err := bind.Extract(S, c.t, out.Elem())
			if err != nil || !rtl.Equal(back, abs) {
				wit["decoded"] = mon.Trunc(fmt.Sprint(out.Elem().Interface()), 400)
				K.Violation("unmarshal-mismatch@tl.Unmarshal("+c.name+")", wit)
			}
		}
	}
}

// sectionRequestDecoder: LiteapiRequestDecoder on reference request bytes.
func sectionRequestDecoder(bs []*binding) {
	n := N(30, 600)
	for _, b := range bs {
		if b.what != "request" {
			continue
		}
		f := b.ctors[0]
		for k := 0; k < n; k++ {
			rng := K.Rng("reqdec/"+f.Name, k)
			o := S.RandomObject(rng, f, nil)
			req, err := S.EncodeBoxed(f, o)
			if err != nil {
				herr("reference request encoding failed: %v", err)
				return
			}
			var sb strings.Builder
			shape(o, &sb)
			K.Eval("reqdec/" + sb.String())
			wit := map[string]any{"function": f.String(), "value": valueWitness(o), "request": mon.HexTrunc(req, 256)}
			begin("LiteapiRequestDecoder|"+f.Name, req)
			var tag uint32
			var name *liteclient.RequestName
			var val any
			p := mon.Guard(func() { tag, name, val, err = liteclient.LiteapiRequestDecoder(append([]byte{}, req...)) })
			end()
			if p != nil {
				wit["panic"] = p.Value
				K.Violation("panic@"+p.Site+"/LiteapiRequestDecoder", wit)
				continue
			}
			if err != nil || name == nil || tag != f.ID || *name != f.Name {
				wit["err"], wit["tag"] = fmt.Sprint(err), fmt.Sprintf("%08x", tag)
				if name != nil {
					wit["name"] = *name
				}
				K.Violation("request-decoder-wrong-name@"+f.Name, wit)
				continue
			}
			rv := reflect.ValueOf(val)
			if !rv.IsValid() || rv.Type() != b.goType {
				wit["got_type"] = fmt.Sprintf("%T", val)
				K.Violation("request-decoder-wrong-type@"+f.Name, wit)
				continue
			}
			back, err := bind.ExtractObject(S, f, rv)
			if err != nil {
				wit["err"] = err.Error()
				K.Violation("request-decoder-wrong-value@"+f.Name, wit)
				continue
			}
			if d := rtl.Diff(S, o, back); d != "" {
				wit["diff"] = d
				K.Violation("request-decoder-wrong-value@"+f.Name, wit)
			}
			K.Seen("request_decoder_functions", f.Name)
		}
	}
	// an id that is no function's id must be reported as unknown, not as some request
	rng := K.Rng("reqdec-unknown", 0)
	for k := 0; k < 50; k++ {
		id := uint32(rng.Uint64())
		known := false
		for _, f := range S.Functions {
			known = known || f.ID == id
		}
		if known {
			continue
		}
		b := append(binary.LittleEndian.AppendUint32(nil, id), rng.Bytes(rng.Intn(40))...)
		var name *liteclient.RequestName
		p := mon.Guard(func() { _, name, _, _ = liteclient.LiteapiRequestDecoder(b) })
		K.Eval("reqdec-unknown")
		if p != nil || name == nil || *name != liteclient.UnknownRequest {
			K.Violation("request-decoder-unknown-id", map[string]any{"bytes": mon.Hex(b)})
		}
	}
}

// sectionMarshalConcurrent: 8 goroutines marshal values of every generated type and request struct at the
// same time (a server answering several connections, a client with several workers). Value oracle: every
// result equals the reference encoding of the value it was asked for - when it is returned and still
// after the same goroutine has marshalled its next two values.
func sectionMarshalConcurrent(bs []*binding) {
	const G = 8
	type item struct {
		b    *binding
		o    *rtl.Object
		gv   reflect.Value
		want []byte
	}
	per := N(3, 40)
	lists := make([][]item, G)
	for g := 0; g < G; g++ {
		for _, b := range bs {
			for k := 0; k < per; k++ {
				rng := K.Rng("marshal-conc/"+b.goName, g*1000+k)
				c := b.ctors[rng.Intn(len(b.ctors))]
				o := S.RandomObject(rng, c, &rtl.GenOpts{Ctor: c.Name, BytesLen: func(r rtl.Rand) int { return r.Intn(300) }})
				want, err := b.encode(o)
				gv := reflect.New(b.goType)
				if err != nil || bind.PopulateObject(S, o, gv.Elem()) != nil {
					continue
				}
				lists[g] = append(lists[g], item{b, o, gv.Elem(), want})
			}
		}
		rng := K.Rng("marshal-conc-order", g)
		perm := rng.Perm(len(lists[g]))
		sh := make([]item, len(perm))
		for i, j := range perm {
			sh[i] = lists[g][j]
		}
		lists[g] = sh
	}
	type bad struct {
		sig string
		wit map[string]any
	}
	found := make([][]bad, G)
	begin("tl.Marshal of generated types|from 8 goroutines", nil)
	var wg sync.WaitGroup
	start := make(chan struct{})
	for g := 0; g < G; g++ {
		wg.Add(1)
		go func(g int) {
			defer wg.Done()
			<-start
			type held struct {
				it  item
				got []byte
			}
			var hold []held
			for round := 0; round < N(4, 6); round++ {
				for _, it := range lists[g] {
					var got []byte
					var err error
					var pv any
					func() {
						defer func() { pv = recover() }()
						got, err = ttl.Marshal(it.gv.Interface())
					}()
					check := func(h held, when string) {
						if bytes.Equal(h.got, h.it.want) {
							return
						}
						at := firstDiff(h.got, h.it.want)
						found[g] = append(found[g], bad{"marshal-mismatch@concurrent/" + h.it.b.goName, map[string]any{"go_type": h.it.b.goName, "goroutine": g, "when": when,
							"value": valueWitness(h.it.o), "first_diff_at": at, "got_len": len(h.got), "want_len": len(h.it.want), "got": window(h.got, at), "want": window(h.it.want, at)}})
					}
					if pv != nil || err != nil {
						found[g] = append(found[g], bad{"marshal-error@concurrent/" + it.b.goName, map[string]any{"go_type": it.b.goName, "err": fmt.Sprint(err, pv), "value": valueWitness(it.o)}})
					} else {
						check(held{it, got}, "when returned")
						for _, h := range hold {
							check(h, "after this goroutine marshalled further values")
						}
						hold = append(hold, held{it, got})
						if len(hold) > 2 {
							hold = hold[1:]
						}
					}
					if len(found[g]) > 5 {
						return
					}
				}
			}
		}(g)
	}
	close(start)
	wg.Wait()
	end()
	total := 0
	for g := range lists {
		total += len(lists[g]) * N(4, 6)
	}
	K.EvalN(int64(total), "marshal-concurrent")
	K.Count("concurrent_marshal_calls", int64(total))
	seen := map[string]bool{}
	for g := range found {
		for _, x := range found[g] {
			if !seen[x.sig] {
				seen[x.sig] = true
				K.Violation(x.sig, x.wit)
			}
		}
	}
}

// sectionRequestDecoderConcurrent: several goroutines hand requests of the SAME function (same constructor id,
// different contents) to LiteapiRequestDecoder at the same time, as a server handling several connections
// does. Value oracle: every caller gets back exactly the request whose bytes it passed in.
func sectionRequestDecoderConcurrent(bs []*binding) {
	const G = 8
	n := N(100, 600)
	for _, b := range bs {
		if b.what != "request" || len(b.ctors[0].Fields) == 0 {
			continue
		}
		f := b.ctors[0]
		type bad struct {
			what string
			wit  map[string]any
		}
		found := make([][]bad, G)
		begin("LiteapiRequestDecoder|"+f.Name+" from 8 goroutines", nil)
		var wg, ready sync.WaitGroup
		start := make(chan struct{})
		for g := 0; g < G; g++ {
			rng := K.Rng("reqdec-conc/"+f.Name, g)
			wg.Add(1)
			ready.Add(1)
			go func(g int, rng *mon.Rng) {
				defer wg.Done()
				// requests are prepared before the start signal so that the decoder calls overlap as much as possible
				objs := make([]*rtl.Object, n)
				reqs := make([][]byte, n)
				for k := range objs {
					objs[k] = S.RandomObject(rng, f, &rtl.GenOpts{BytesLen: func(r rtl.Rand) int { return 1 + r.Intn(700) }})
					reqs[k], _ = S.EncodeBoxed(f, objs[k])
				}
				ready.Done()
				<-start
				for k := range objs {
					var name *liteclient.RequestName
					var val any
					var err error
					var pv any
					func() {
						defer func() { pv = recover() }()
						_, name, val, err = liteclient.LiteapiRequestDecoder(reqs[k])
					}()
					wit := map[string]any{"function": f.String(), "goroutine": g, "call": k, "value": valueWitness(objs[k]), "request": mon.HexTrunc(reqs[k], 256)}
					rv := reflect.ValueOf(val)
					switch {
					case pv != nil:
						wit["panic"] = fmt.Sprint(pv)
						found[g] = append(found[g], bad{"panic@LiteapiRequestDecoder/concurrent/" + f.Name, wit})
					case err != nil || name == nil || *name != f.Name || !rv.IsValid() || rv.Type() != b.goType:
						wit["err"], wit["got_type"] = fmt.Sprint(err), fmt.Sprintf("%T", val)
						found[g] = append(found[g], bad{"request-decoder-wrong-name@concurrent/" + f.Name, wit})
					default:
						back, err := bind.ExtractObject(S, f, rv)
						if err != nil || rtl.Diff(S, objs[k], back) != "" {
							wit["diff"], wit["err"] = rtl.Diff(S, objs[k], back), fmt.Sprint(err)
							wit["note"] = "the caller did not get back the request it passed in (other goroutines were decoding requests of the same function)"
							found[g] = append(found[g], bad{"request-decoder-wrong-value@concurrent/" + f.Name, wit})
						}
					}
					if len(found[g]) > 3 {
						return
					}
				}
			}(g, rng)
		}
		ready.Wait()
		close(start)
		wg.Wait()
		end()
		K.EvalN(int64(G*n), "reqdec-concurrent/"+f.Name)
		K.Seen("request_decoder_functions_concurrent", f.Name)
		for g := range found {
			for _, x := range found[g] {
				K.Violation(x.what, x.wit)
			}
		}
	}
}

// sectionHandWritten: tl.Int256, ton.AccountID, ton.BlockIDExt,
// liteclient.LiteServerSignatureSet and the conversion helpers of extensions.go.
func sectionHandWritten() {
	n := N(300, 6000)
	blkC, accC := S.Constructor("tonNode.blockIdExt"), S.Constructor("liteServer.accountId")
	sigT := rtl.Type{Kind: rtl.KBoxed, Name: "liteServer.SignatureSet"}
	if blkC == nil || accC == nil || len(S.TypeConstructors(sigT.Name)) != 1 {
		herr("lite_api.tl lacks tonNode.blockIdExt / liteServer.accountId / liteServer.SignatureSet")
		return
	}
	for i := 0; i < n; i++ {
		rng := K.Rng("hand", i)
		begin(fmt.Sprintf("hand-written codecs|case %d", i), nil)
		// tl.Int256
		{
			v := S.Random(rng, rtl.Type{Kind: rtl.KInt256}, nil).([32]byte)
			want := v[:]
			got, err := ttl.Int256(v).MarshalTL()
			K.Eval(fmt.Sprintf("int256/%x", v[:2]))
			K.Seen("hand_written_types", "tl.Int256")
			if err != nil || !bytes.Equal(got, want) {
				K.Violation("marshal-mismatch@tl.Int256", map[string]any{"value": mon.Hex(v[:]), "got": mon.Hex(got)})
			}
			var back ttl.Int256
			rd := bytes.NewReader(append(append([]byte{}, want...), sentinel...))
			if err := back.UnmarshalTL(rd); err != nil || back != ttl.Int256(v) || rd.Len() != len(sentinel) {
				K.Violation("unmarshal-mismatch@tl.Int256", map[string]any{"value": mon.Hex(v[:]), "err": fmt.Sprint(err)})
			}
		}
		// ton.AccountID = liteServer.accountId workchain:int id:int256
		{
			o := S.RandomObject(rng, accC, nil)
			want, _ := S.EncodeFields(accC, o)
			id := ton.AccountID{Workchain: int32(o.Fields[0].(uint32)), Address: o.Fields[1].([32]byte)}
			wit := map[string]any{"value": valueWitness(o)}
			var got []byte
			var err error
			p := mon.Guard(func() { got, err = ttl.Marshal(id) })
			K.Eval(fmt.Sprintf("accountid/%d", i%64))
			K.Seen("hand_written_types", "ton.AccountID")
			if p != nil || err != nil || !bytes.Equal(got, want) {
				wit["got"], wit["want"] = mon.Hex(got), mon.Hex(want)
				K.Violation("marshal-mismatch@ton.AccountID", wit)
			}
			var back ton.AccountID
			rd := bytes.NewReader(append(append([]byte{}, want...), sentinel...))
			p = mon.Guard(func() { err = ttl.Unmarshal(rd, &back) })
			if p != nil || err != nil || back != id || rd.Len() != len(sentinel) {
				wit["err"] = fmt.Sprint(err, p)
				K.Violation("unmarshal-mismatch@ton.AccountID", wit)
			}
			// helper: liteclient.AccountID(id) is the generated form of the same value
			if g, err := ttl.Marshal(liteclient.AccountID(id)); err != nil || !bytes.Equal(g, want) {
				K.Violation("marshal-mismatch@liteclient.AccountID(ton.AccountID)", wit)
			}
		}
		// ton.BlockIDExt = tonNode.blockIdExt
		{
			o := S.RandomObject(rng, blkC, nil)
			want, _ := S.EncodeFields(blkC, o)
			id := ton.BlockIDExt{BlockID: ton.BlockID{Workchain: int32(o.Fields[0].(uint32)), Shard: o.Fields[1].(uint64), Seqno: o.Fields[2].(uint32)},
				RootHash: ton.Bits256(o.Fields[3].([32]byte)), FileHash: ton.Bits256(o.Fields[4].([32]byte))}
			wit := map[string]any{"value": valueWitness(o)}
			var got []byte
			var err error
			p := mon.Guard(func() { got, err = ttl.Marshal(id) })
			K.Eval(fmt.Sprintf("blockidext/%d", i%64))
			K.Seen("hand_written_types", "ton.BlockIDExt")
			if p != nil || err != nil || !bytes.Equal(got, want) {
				wit["got"], wit["want"] = mon.Hex(got), mon.Hex(want)
				K.Violation("marshal-mismatch@ton.BlockIDExt", wit)
			}
			var back ton.BlockIDExt
			p = mon.Guard(func() { err = back.UnmarshalTL(append([]byte{}, want...)) })
			if p != nil || err != nil || back != id {
				wit["err"] = fmt.Sprint(err, p)
				K.Violation("unmarshal-mismatch@ton.BlockIDExt", wit)
			}
			gen := liteclient.BlockIDExt(id)
			if g, err := ttl.Marshal(gen); err != nil || !bytes.Equal(g, want) {
				K.Violation("marshal-mismatch@liteclient.BlockIDExt(ton.BlockIDExt)", wit)
			}
			if gen.ToBlockIdExt() != id {
				K.Violation("value-mismatch@TonNodeBlockIdExtC.ToBlockIdExt", wit)
			}
		}
		// liteclient.LiteServerSignatureSet = boxed liteServer.SignatureSet
		{
			o := S.Random(rng, sigT, nil).(*rtl.Object)
			want, _ := S.Encode(sigT, o)
			var v liteclient.LiteServerSignatureSet
			if err := bind.PopulateObject(S, o, reflect.ValueOf(&v).Elem()); err != nil {
				K.Violation("shape-mismatch@liteclient.LiteServerSignatureSet", map[string]any{"err": err.Error()})
				continue
			}
			wit := map[string]any{"value": valueWitness(o)}
			var got []byte
			var err error
			p := mon.Guard(func() { got, err = ttl.Marshal(v) })
			K.Eval(fmt.Sprintf("sigset/%d", len(o.Fields[2].([]any))))
			K.Seen("hand_written_types", "liteclient.LiteServerSignatureSet")
			if p != nil || err != nil || !bytes.Equal(got, want) {
				wit["got"], wit["want"] = mon.HexTrunc(got, 128), mon.HexTrunc(want, 128)
				K.Violation("marshal-mismatch@liteclient.LiteServerSignatureSet", wit)
			}
			var back liteclient.LiteServerSignatureSet
			rd := bytes.NewReader(append(append([]byte{}, want...), sentinel...))
			p = mon.Guard(func() { err = ttl.Unmarshal(rd, &back) })
			if p != nil || err != nil || rd.Len() != len(sentinel) {
				wit["err"] = fmt.Sprint(err, p)
				K.Violation("unmarshal-error@liteclient.LiteServerSignatureSet", wit)
				continue
			}
			bo, err := bind.ExtractObject(S, S.TypeConstructors(sigT.Name)[0], reflect.ValueOf(back))
			if err != nil || rtl.Diff(S, o, bo) != "" {
				wit["diff"] = rtl.Diff(S, o, bo)
				K.Violation("unmarshal-mismatch@liteclient.LiteServerSignatureSet", wit)
			}
			// the boxed form starts with the id of liteServer.signatureSet and with no other
			for _, id := range []uint32{S.TypeConstructors(sigT.Name)[0].ID ^ 1, blkC.ID, accC.ID} {
				bad := append(binary.LittleEndian.AppendUint32(nil, id), want[4:]...)
				var v2 liteclient.LiteServerSignatureSet
				p = mon.Guard(func() { err = ttl.Unmarshal(bytes.NewReader(bad), &v2) })
				K.Count("foreign_id_decodes", 1)
				if p != nil || err == nil {
					wit["offered_id"], wit["panic"] = fmt.Sprintf("%08x", id), fmt.Sprint(p)
					K.Violation("foreign-id-accepted@liteclient.LiteServerSignatureSet", wit)
					break
				}
			}
		}
	}
}

// ---- requests on the wire ----

type expectation struct {
	reqWant  []byte // reference bytes of  function id ‖ args  (or prefix ‖ that)
	answer   []byte // what the server puts into adnl.message.answer
	observed chan string
}

type wireServer struct {
	mu  sync.Mutex
	cur *expectation
}

// the two wrapper lines. adnl.message.query is declared in lite_api.tl;
// liteServer.query and the wait prefix are lines of the official lite_api.tl
// that tongo's copy of the file only carries as comments.
var (
	lsQuery    = mustLine("liteServer.query#798c06df data:bytes = Object;")
	waitPrefix = mustLine("liteServer.waitMasterchainSeqno#baeab892 seqno:int timeout_ms:int = Object;")
)

func mustLine(s string) *rtl.Combinator {
	c, err := rtl.ParseLine(s)
	if err != nil {
		panic(err)
	}
	return c
}

func (ws *wireServer) serve(p *adnl.Peer) {
	defer p.Close()
	for {
		payload, _, err := p.Recv()
		if err != nil {
			return
		}
		if pong, ok := adnl.IsPing(payload); ok {
			p.Send([32]byte{}, pong)
			continue
		}
		ws.mu.Lock()
		e := ws.cur
		ws.cur = nil
		ws.mu.Unlock()
		if e == nil {
			continue
		}
		verdict := ""
		var qid [32]byte
		msgT := rtl.Type{Kind: rtl.KBoxed, Name: "adnl.Message"}
		v, rest, err := S.Decode(msgT, payload)
		switch {
		case err != nil:
			verdict = "packet is not an adnl.Message: " + err.Error()
		case len(rest) != 0:
			verdict = fmt.Sprintf("%d bytes after adnl.message.query", len(rest))
		case v.(*rtl.Object).Ctor != "adnl.message.query":
			verdict = "packet is " + v.(*rtl.Object).Ctor
		default:
			o := v.(*rtl.Object)
			qid = o.Fields[0].([32]byte)
			inner, _ := S.EncodeBoxed(lsQuery, &rtl.Object{Ctor: lsQuery.Name, Fields: []any{e.reqWant}})
			whole, _ := S.Encode(msgT, &rtl.Object{Ctor: "adnl.message.query", Fields: []any{qid, inner}})
			if !bytes.Equal(whole, payload) {
				at := firstDiff(whole, payload)
				verdict = fmt.Sprintf("query bytes differ at offset %d: sent %s, reference %s (sent %d bytes, reference %d)", at, window(payload, at), window(whole, at), len(payload), len(whole))
			}
		}
		if len(payload) >= 36 {
			copy(qid[:], payload[4:36])
		}
		ans, _ := S.Encode(msgT, &rtl.Object{Ctor: "adnl.message.answer", Fields: []any{qid, e.answer}})
		// report first, answer second: once the client has its answer the verdict is already in the channel
		e.observed <- verdict
		p.Send([32]byte{}, ans)
	}
}

func sectionWire(bs []*binding) {
	if err := adnl.SelfCheck(); err != nil {
		herr("reference ADNL model failed its self-check: %v", err)
		return
	}
	ws := &wireServer{}
	id := adnl.NewIdentity(K.Rng("wire-key", 0).Bytes(32))
	// own accept loop on top of the reference handshake / framing (Identity.Accept, Peer.Recv/Send)
	ln, err := net.Listen("tcp", "127.0.0.1:0")
	if err != nil {
		herr("cannot listen on loopback: %v", err)
		return
	}
	defer ln.Close()
	go func() {
		for {
			c, err := ln.Accept()
			if err != nil {
				return
			}
			go func() {
				p, err := id.Accept(c, [32]byte{}, false)
				if err != nil {
					c.Close()
					return
				}
				ws.serve(p)
			}()
		}
	}()
	ctx := context.Background()
	conn, err := liteclient.NewConnection(ctx, id.Pub[:], ln.Addr().String())
	if err != nil {
		K.Inconclusive("liteclient.NewConnection to the reference ADNL server failed (C11's subject): " + err.Error())
		return
	}
	client := liteclient.NewClient(conn, liteclient.OptionTimeout(20*time.Second))
	cv := reflect.ValueOf(client)

	errC := S.Constructor("liteServer.error")
	byMethod := map[string]*binding{}
	for _, b := range bs {
		if b.what == "request" {
			byMethod[norm(b.tlName)] = b
		}
	}
	perFn := N(10, 340)
	bigAns, bigReq := 0, 0
	type special struct {
		kind string
		L    int
	}
	for _, mname := range registryMethods {
		b := byMethod[norm(mname)]
		if b == nil {
			K.Violation("method-without-schema-line@"+mname, map[string]any{"method": mname})
			continue
		}
		delete(byMethod, norm(mname))
		f := b.ctors[0]
		m := cv.MethodByName(mname)
		if !m.IsValid() {
			herr("registry lists %s but *liteclient.Client has no such method", mname)
			continue
		}
		mt := m.Type()
		okSig := mt.NumOut() == 2 && mt.NumIn() >= 1 && mt.NumIn() <= 2 && (mt.NumIn() == 1) == (len(f.Fields) == 0)
		if okSig && mt.NumIn() == 2 {
			okSig = mt.In(1) == b.goType
		}
		if !okSig {
			K.Violation("method-signature@"+mname, map[string]any{"method": mname, "signature": mt.String(), "function": f.String()})
			continue
		}
		resT := rtl.Type{Kind: rtl.KBoxed, Name: f.Result}
		// after the ordinary cases: an answer that is a boxed value of ANOTHER type (must be refused), and for a
		// few methods byte strings beyond 2^16 in the answer / in the request (the adnl.message.query/answer and
		// liteServer.query envelopes are hand-written length codecs of their own)
		specials := []special{{"foreign", 0}}
		if rc := S.TypeConstructors(f.Result); len(rc) == 1 && hasDirectBytes(rc[0]) && bigAns < N(2, 5) {
			bigAns++
			for _, L := range []int{65535, 65536, 200000} {
				specials = append(specials, special{"big-answer", L})
			}
		}
		if hasDirectBytes(f) && bigReq < N(1, 3) {
			bigReq++
			for _, L := range []int{65536, 200000} {
				specials = append(specials, special{"big-request", L})
			}
		}
		for k := 0; k < perFn+len(specials); k++ {
			sp := special{kind: "normal"}
			if k >= perFn {
				sp = specials[k-perFn]
			}
			rng := K.Rng("wire/"+f.Name, k)
			firstArg := true
			args := S.RandomObject(rng, f, &rtl.GenOpts{BytesLen: func(r rtl.Rand) int {
				if sp.kind == "big-request" && firstArg {
					firstArg = false
					return sp.L
				}
				if r.Intn(3) == 0 {
					return rtl.BoundaryLens[r.Intn(len(rtl.BoundaryLens))]
				}
				return r.Intn(64)
			}})
			reqWant, err := S.EncodeBoxed(f, args)
			if err != nil {
				herr("reference request encoding failed: %v", err)
				return
			}
			sendErr := k%5 == 4 && sp.kind == "normal"
			var resp *rtl.Object
			switch {
			case sendErr:
				resp = S.RandomObject(rng, errC, nil)
			case sp.kind == "foreign":
				at := rng.Intn(len(S.Constructors))
				for i := range S.Constructors {
					c := S.Constructors[(at+i)%len(S.Constructors)]
					if c.Result != f.Result && c != errC && c.HasID {
						resp = S.RandomObject(rng, c, &rtl.GenOpts{Ctor: c.Name})
						break
					}
				}
			case sp.kind == "big-answer":
				firstRes := true
				resp = S.Random(rng, resT, &rtl.GenOpts{BytesLen: func(r rtl.Rand) int {
					if firstRes {
						firstRes = false
						return sp.L
					}
					return r.Intn(16)
				}}).(*rtl.Object)
			default:
				resp = S.Random(rng, resT, nil).(*rtl.Object)
			}
			if resp == nil {
				continue
			}
			ansBytes, _ := S.Encode(rtl.Type{Kind: rtl.KBoxed, Name: S.Constructor(resp.Ctor).Result}, resp)
			e := &expectation{reqWant: reqWant, answer: ansBytes, observed: make(chan string, 1)}
			ws.mu.Lock()
			ws.cur = e
			ws.mu.Unlock()

			in := []reflect.Value{reflect.ValueOf(ctx)}
			if mt.NumIn() == 2 {
				rv := reflect.New(b.goType)
				if err := bind.PopulateObject(S, args, rv.Elem()); err != nil {
					K.Violation("shape-mismatch@"+b.goName, map[string]any{"err": err.Error()})
					break
				}
				in = append(in, rv.Elem())
			}
			wit := map[string]any{"method": mname, "function": f.String(), "args": valueWitness(args), "response": valueWitness(resp), "reference_request": mon.HexTrunc(reqWant, 256)}
			begin(mname+"|wire answer", ansBytes)
			var outs []reflect.Value
			p := mon.Guard(func() { outs = m.Call(in) })
			end()
			var sb strings.Builder
			shape(args, &sb)
			sb.WriteString("->")
			shape(resp, &sb)
			K.Eval("wire/" + sb.String())
			if sp.kind != "normal" {
				wit["case"] = fmt.Sprintf("%s %d", sp.kind, sp.L)
				K.Seen("wire_special_cases", fmt.Sprintf("%s/%d", sp.kind, sp.L))
			}
			if p != nil {
				wit["panic"] = p.Value
				K.Violation("panic@"+p.Site+"/"+mname, wit)
				continue
			}
			var verdict string
			select {
			case verdict = <-e.observed:
			case <-time.After(2 * time.Second):
				verdict = "server saw no query"
			}
			callErr, _ := outs[1].Interface().(error)
			if verdict == "server saw no query" {
				wit["client_error"] = fmt.Sprint(callErr)
				if callErr != nil {
					// the transport failed (C11/C12's subject), nothing was observed about the bytes
					K.Inconclusive("transport error on loopback: " + mon.PanicClass(callErr.Error()))
				} else {
					K.Inconclusive("the reference server's report did not arrive within 2 s although the call returned")
				}
				continue
			}
			if verdict != "" {
				wit["server_view"] = verdict
				K.Violation("request-bytes@"+mname, wit)
				continue
			}
			K.Seen("methods_on_the_wire", mname)
			if k == 0 && len(f.Fields) > 1 {
				K.Sample(map[string]any{"kind": "wire", "method": mname, "args": valueWitness(args), "query_seen_by_server": mon.HexTrunc(reqWant, 96), "answer": resp.Ctor})
			}
			if sp.kind == "foreign" {
				// neither a value of the result type nor liteServer.error: the id in front of the answer names another line
				K.Count("foreign_answers", 1)
				if callErr != nil && strings.Contains(callErr.Error(), "request timeout") {
					K.Inconclusive("request timed out on loopback")
				} else if _, isLS := callErr.(liteclient.LiteServerErrorC); callErr == nil || isLS {
					wit["returned"], wit["client_error"] = mon.Trunc(fmt.Sprintf("%+v", outs[0].Interface()), 600), fmt.Sprint(callErr)
					K.Violation("foreign-answer-accepted@"+mname, wit)
				}
				continue
			}
			if sendErr {
				le, ok := callErr.(liteclient.LiteServerErrorC)
				if !ok {
					wit["client_error"] = fmt.Sprintf("%T %v", callErr, callErr)
					K.Violation("error-answer-not-returned@"+mname, wit)
					continue
				}
				back, err := bind.ExtractObject(S, errC, reflect.ValueOf(le))
				if err != nil || rtl.Diff(S, resp, back) != "" {
					wit["diff"] = rtl.Diff(S, resp, back)
					K.Violation("error-answer-mismatch@"+mname, wit)
				}
				K.Count("error_answers", 1)
				continue
			}
			if callErr != nil {
				wit["client_error"] = callErr.Error()
				if strings.Contains(callErr.Error(), "request timeout") {
					K.Inconclusive("request timed out on loopback")
					continue
				}
				K.Violation("response-rejected@"+mname, wit)
				continue
			}
			back, err := bind.Extract(S, resT, outs[0])
			if err != nil {
				wit["err"] = err.Error()
				K.Violation("response-mismatch@"+mname, wit)
				continue
			}
			if d := rtl.Diff(S, resp, back); d != "" {
				wit["diff"] = d
				K.Violation("response-mismatch@"+mname, wit)
			}
			K.Count("value_answers", 1)
		}
	}
	var left []string
	for _, b := range byMethod {
		left = append(left, b.tlName)
	}
	sort.Strings(left)
	for _, n := range left {
		K.Violation("function-without-method@"+n, map[string]any{"function": n, "note": "lite_api.tl declares the function, *liteclient.Client has no generated method for it"})
	}

	// hand-written prefix request: WaitMasterchainBlock = waitMasterchainSeqno prefix ‖ lookupBlock
	lookup, hdrC := S.Function("liteServer.lookupBlock"), S.Constructor("liteServer.blockHeader")
	if lookup != nil && hdrC != nil && len(lookup.Fields) == 4 {
		for k := 0; k < N(10, 200); k++ {
			rng := K.Rng("wire-wait", k)
			seqno, timeout := uint32(rng.Uint64()), uint32(rng.Uint64())
			pre, _ := S.EncodeBoxed(waitPrefix, &rtl.Object{Ctor: waitPrefix.Name, Fields: []any{seqno, timeout}})
			blk := &rtl.Object{Ctor: "tonNode.blockId", Fields: []any{uint32(0xffffffff), uint64(1) << 63, seqno}}
			req, err := S.EncodeBoxed(lookup, &rtl.Object{Ctor: lookup.Name, Fields: []any{uint32(1), blk, nil, nil}})
			if err != nil {
				herr("lookupBlock reference encoding: %v", err)
				break
			}
			resp := S.RandomObject(rng, hdrC, nil)
			ans, _ := S.EncodeBoxed(hdrC, resp)
			sendErr := k%4 == 3
			if sendErr {
				resp = S.RandomObject(rng, errC, nil)
				ans, _ = S.EncodeBoxed(errC, resp)
			}
			e := &expectation{reqWant: append(pre, req...), answer: ans, observed: make(chan string, 1)}
			ws.mu.Lock()
			ws.cur = e
			ws.mu.Unlock()
			var res liteclient.LiteServerBlockHeaderC
			var err2 error
			p := mon.Guard(func() { res, err2 = client.WaitMasterchainBlock(ctx, seqno, timeout) })
			K.Eval(fmt.Sprintf("wire-wait/%d", k%8))
			wit := map[string]any{"method": "WaitMasterchainBlock", "seqno": seqno, "timeout": timeout}
			if p != nil {
				K.Violation("panic@"+p.Site+"/WaitMasterchainBlock", wit)
				continue
			}
			select {
			case v := <-e.observed:
				if v != "" {
					wit["server_view"] = v
					K.Violation("request-bytes@WaitMasterchainBlock", wit)
					continue
				}
			case <-time.After(2 * time.Second):
				K.Inconclusive("WaitMasterchainBlock: server saw no query")
				continue
			}
			if err2 != nil && strings.Contains(err2.Error(), "request timeout") {
				K.Inconclusive("request timed out on loopback")
				continue
			}
			if sendErr {
				le, ok := err2.(liteclient.LiteServerErrorC)
				var back *rtl.Object
				if ok {
					back, _ = bind.ExtractObject(S, errC, reflect.ValueOf(le))
				}
				if !ok || back == nil || rtl.Diff(S, resp, back) != "" {
					wit["client_error"], wit["answer"] = fmt.Sprintf("%T %v", err2, err2), valueWitness(resp)
					K.Violation("error-answer-not-returned@WaitMasterchainBlock", wit)
				}
				continue
			}
			if err2 != nil {
				wit["client_error"] = err2.Error()
				K.Violation("response-rejected@WaitMasterchainBlock", wit)
				continue
			}
			back, err := bind.ExtractObject(S, hdrC, reflect.ValueOf(res))
			if err != nil || rtl.Diff(S, resp, back) != "" {
				wit["diff"] = rtl.Diff(S, resp, back)
				K.Violation("response-mismatch@WaitMasterchainBlock", wit)
			}
			K.Seen("methods_on_the_wire", "WaitMasterchainBlock")
		}
	}

	// hand-written request: WaitMasterchainSeqno = liteServer.waitMasterchainSeqno seqno:int timeout_ms:int alone.
	// The answer scripted here is liteServer.error: with a non-zero code it must come back as that error value
	// (code 0 is how a server says "done" to a bare wait; nil or the error value are both accepted for it).
	for k := 0; k < N(12, 200); k++ {
		rng := K.Rng("wire-waitseqno", k)
		seqno, timeout := uint32(rng.Uint64()), uint32(rng.Uint64())
		if k < 4 {
			seqno, timeout = []uint32{0, 1, 0x01020304, 0xffffffff}[k], []uint32{0xffffffff, 0x0a0b0c0d, 1, 0}[k]
		}
		pre, _ := S.EncodeBoxed(waitPrefix, &rtl.Object{Ctor: waitPrefix.Name, Fields: []any{seqno, timeout}})
		resp := S.RandomObject(rng, errC, nil)
		if k%3 == 2 {
			resp.Fields[0] = uint32(0)
		}
		ans, _ := S.EncodeBoxed(errC, resp)
		e := &expectation{reqWant: pre, answer: ans, observed: make(chan string, 1)}
		ws.mu.Lock()
		ws.cur = e
		ws.mu.Unlock()
		var err2 error
		p := mon.Guard(func() { err2 = client.WaitMasterchainSeqno(ctx, seqno, timeout) })
		K.Eval(fmt.Sprintf("wire-waitseqno/%d", k%8))
		wit := map[string]any{"method": "WaitMasterchainSeqno", "seqno": seqno, "timeout": timeout, "reference_request": mon.Hex(pre), "answer": valueWitness(resp)}
		if p != nil {
			wit["panic"] = p.Value
			K.Violation("panic@"+p.Site+"/WaitMasterchainSeqno", wit)
			continue
		}
		select {
		case v := <-e.observed:
			if v != "" {
				wit["server_view"] = v
				K.Violation("request-bytes@WaitMasterchainSeqno", wit)
				continue
			}
		case <-time.After(2 * time.Second):
			K.Inconclusive("WaitMasterchainSeqno: server saw no query")
			continue
		}
		K.Seen("methods_on_the_wire", "WaitMasterchainSeqno")
		if err2 != nil && strings.Contains(err2.Error(), "request timeout") {
			K.Inconclusive("request timed out on loopback")
			continue
		}
		le, ok := err2.(liteclient.LiteServerErrorC)
		if resp.Fields[0].(uint32) == 0 && err2 == nil {
			continue
		}
		var back *rtl.Object
		if ok {
			back, _ = bind.ExtractObject(S, errC, reflect.ValueOf(le))
		}
		if !ok || back == nil || rtl.Diff(S, resp, back) != "" {
			wit["client_error"] = fmt.Sprintf("%T %v", err2, err2)
			K.Violation("error-answer-not-returned@WaitMasterchainSeqno", wit)
		}
	}
}

// ---- generator -> artifact ----

func run(dir string, env []string, name string, args ...string) (string, error) {
	cmd := exec.Command(name, args...)
	cmd.Dir = dir
	cmd.Env = append(os.Environ(), env...)
	out, err := cmd.CombinedOutput()
	return string(out), err
}

func firstDiffLine(a, b string) (int, string, string) {
	la, lb := strings.Split(a, "\n"), strings.Split(b, "\n")
	for i := 0; i < len(la) || i < len(lb); i++ {
		var x, y string
		if i < len(la) {
			x = la[i]
		}
		if i < len(lb) {
			y = lb[i]
		}
		if x != y {
			return i + 1, x, y
		}
	}
	return 0, "", ""
}

// sectionArtifacts runs the repository's own generators in a scratch module
// (only the working directory, hence the output path, differs) and compares
// the gofmt'ed output with the checked-in files.
func sectionArtifacts() {
	repo := mon.RepoRoot()
	tmp, err := os.MkdirTemp("", "verif-c10-gen-")
	if err != nil {
		R.HarnessError("mkdtemp: %v", err)
		return
	}
	defer os.RemoveAll(tmp)
	gomod := fmt.Sprintf("module c10scratch\n\ngo 1.23\n\nrequire github.com/tonkeeper/tongo v0.0.0\n\nreplace github.com/tonkeeper/tongo => %s\n", repo)
	if err := os.WriteFile(filepath.Join(tmp, "go.mod"), []byte(gomod), 0o644); err != nil {
		R.HarnessError("scratch module: %v", err)
		return
	}
	for _, cand := range []string{filepath.Join(mon.VerifRoot(), "harness", "go.sum"), filepath.Join(repo, "go.sum")} {
		if b, err := os.ReadFile(cand); err == nil {
			os.WriteFile(filepath.Join(tmp, "go.sum"), b, 0o644)
			break
		}
	}
	env := []string{"GOFLAGS=-mod=mod", "GOPROXY=off", "GOSUMDB=off", "GOTOOLCHAIN=local"}
	for _, a := range []struct {
		dir, generator, output string
		inputs                 []string
	}{
		{"liteclient", "generator.go", "generated.go", []string{"lite_api.tl"}},
		{"tlb", "generator.go", "integers.go", nil},
	} {
		work := filepath.Join(tmp, a.dir)
		os.MkdirAll(work, 0o755)
		for _, f := range append([]string{a.generator}, a.inputs...) {
			b, err := os.ReadFile(filepath.Join(repo, a.dir, f))
			if err != nil {
				R.HarnessError("artifact check: %v", err)
				return
			}
			os.WriteFile(filepath.Join(work, f), b, 0o644)
		}
		rel := a.dir + "/" + a.output
		out, err := run(work, env, "go", "run", a.generator)
		if err != nil {
			R.Violation("generator-fails@"+a.dir+"/"+a.generator, map[string]any{"output": mon.Trunc(out, 4000), "err": err.Error()})
			continue
		}
		raw, err := os.ReadFile(filepath.Join(work, a.output))
		if err != nil {
			R.Violation("generator-wrote-nothing@"+rel, map[string]any{"output": mon.Trunc(out, 2000)})
			continue
		}
		formatted, err := format.Source(raw)
		if err != nil {
			R.Violation("generator-output-does-not-parse@"+rel, map[string]any{"err": err.Error()})
			continue
		}
		checked, err := os.ReadFile(filepath.Join(repo, a.dir, a.output))
		if err != nil {
			R.Violation("artifact-missing@"+rel, map[string]any{"err": err.Error()})
			continue
		}
		R.Eval("artifact/" + rel)
		R.Seen("artifacts_compared", fmt.Sprintf("%s (%d bytes)", rel, len(checked)))
		if !bytes.Equal(formatted, checked) {
			line, g, c := firstDiffLine(string(formatted), string(checked))
			R.Violation("artifact-drift@"+rel, map[string]any{"first_differing_line": line, "generator_says": g, "checked_in_says": c,
				"generated_bytes": len(formatted), "checked_in_bytes": len(checked)})
		}
	}
}

type jobIn struct {
	Part, Parts int
}

func loadSchema() bool {
	var err error
	S, _, err = rtl.SelfCheck(mon.RepoRoot())
	if err != nil {
		herr("reference TL model failed its self-check: %v", err)
		return false
	}
	return true
}

// Everything that feeds bytes to tongo's decoders runs in child processes: a
// decoder that loses its place in the stream can allocate without bound
// (tl.decodeVector trusts the count), which recover() cannot stop.
func workerCodecs(w *mon.Worker) {
	K = w
	var in jobIn
	if json.Unmarshal(w.Job, &in) != nil || in.Parts <= 0 || !loadSchema() {
		w.HarnessError("bad codec job")
		return
	}
	var mine []*binding
	for i, b := range buildBindings(false) {
		if i%in.Parts == in.Part {
			mine = append(mine, b)
		}
	}
	sectionCodecs(mine)
}

func workerMisc(w *mon.Worker) {
	K = w
	if !loadSchema() {
		return
	}
	bs := buildBindings(false)
	sectionPrimitives()
	sectionPrimitiveVectors()
	sectionRequestDecoder(bs)
	sectionRequestDecoderConcurrent(bs)
	sectionMarshalConcurrent(bs)
	sectionHandWritten()
}

func workerWire(w *mon.Worker) {
	K = w
	if !loadSchema() {
		return
	}
	sectionWire(buildBindings(false))
}

func main() {
	if mon.IsWorker() {
		mon.WorkerMain(map[string]func(*mon.Worker){"codecs": workerCodecs, "misc": workerMisc, "wire": workerWire})
	}
	tier := "quick"
	if len(os.Args) > 1 {
		tier = os.Args[1]
	}
	R = mon.Start("C10", tier)
	K = R
	R.Rule = "for every line of lite_api.tl (as parsed by the reference TL model, not by tongo) abstract values are drawn (every subset of the mode bits the line consults x byte-string lengths {0,1,2,3,4,253,254,255,256,1100}, plus free random values, plus lengths around 2^16 / 2^24), placed positionally into the generated Go type found by scanning generated.go, and compared: tl.Marshal bytes == reference bytes, also re-compared after each of the next four Marshal calls (a returned slice belongs to the caller) and when 8 goroutines marshal values of all types at the same time; tl.Unmarshal(reference bytes ‖ sentinel) == value, consuming exactly the value; LiteapiRequestDecoder(reference request) names the function and returns the value, also when 8 goroutines decode different requests of the same function at the same time (each must get its own request back); each *Client method talks to a reference ADNL server which compares the decrypted query with adnl.message.query{liteServer.query{id ‖ args}} and answers with the reference encoding of a random result (or liteServer.error); tl.Marshal/Unmarshal of plain []byte/string for every length 0..1100; the hand-written requests WaitMasterchainBlock / WaitMasterchainSeqno likewise (incl. liteServer.error answers); per method one answer that is a boxed value of another type (must be refused) and, for a few methods, byte strings of 65535/65536/200000 bytes in the answer or the request (long-form length in the adnl.message.* / liteServer.query envelopes); every value is decoded a second time from a reader that returns 1..5 bytes per Read, and boxed values are offered with a foreign constructor id (must be refused); tl.Marshal/Unmarshal of Go slices of every element kind; hand-written codecs likewise; the two generators are re-run and their gofmt'ed output compared with the checked-in files. non-trivial = a value that was encoded and compared; distinct = distinct (Go type, constructor, presence pattern, byte-string / vector length classes)"
	R.Assume("reference TL model harness/ref/tl is correct: pinned at start-up by real lite-server answers in ton/testdata, the overlay-id network constants and the byte-string examples of the TL documentation")
	R.Assume("Go values are populated positionally: the i-th Go field of a generated struct is the i-th schema field whose type is not `true`")
	R.Assume("the constructor ids written in lite_api.tl are taken as given (their agreement with CRC32 of the official schema lines is not part of the property)")

	var facts int
	var err error
	S, facts, err = rtl.SelfCheck(mon.RepoRoot())
	if err != nil {
		R.HarnessError("reference TL model failed its self-check: %v", err)
		os.Exit(R.Finish())
	}
	R.Extra("model_selfcheck_facts", facts)
	R.Extra("schema", map[string]int{"constructors": len(S.Constructors), "functions": len(S.Functions), "types": len(S.TypeNames()), "registry_types": len(registryTypes), "registry_methods": len(registryMethods)})

	buildBindings(true) // reports schema lines without a Go type and Go types without a schema line
	const parts = 12
	jobs := []mon.Job{{Name: "misc", Input: jobIn{}}, {Name: "wire", Input: jobIn{}}}
	for p := 0; p < parts; p++ {
		jobs = append(jobs, mon.Job{Name: "codecs", Input: jobIn{Part: p, Parts: parts}})
	}
	R.RunJobs(jobs, mon.ChildOpts{Parallel: 14, UlimitKiB: 6 << 20, Timeout: 20 * time.Minute}, func(c mon.Crash) {
		if c.TimedOut {
			R.Inconclusive("child watchdog: " + jobs[c.Job].Name)
			return
		}
		who, what, _ := strings.Cut(c.Case, "|")
		if who == "" {
			R.HarnessError("child %s died outside a case: %s %s", jobs[c.Job].Name, c.ExitInfo, mon.Trunc(c.Stderr, 600))
			return
		}
		R.Violation("fatal:"+mon.FatalClass(c.Stderr)+"@"+who, map[string]any{"case": what, "reference_bytes_hex": mon.Trunc(string(c.Input), 2048),
			"exit": c.ExitInfo, "stderr": c.Stderr, "note": "the process died while tongo handled well-formed reference bytes"})
	})
	sectionArtifacts()
	os.Exit(R.Finish())
}
