#!/bin/bash
# Run by ./check from /verif/harness before the build: regenerate the registry
# of generated types / client methods from the tree under test ($1).
set -eu
REPO="${1:-${VERIF_REPO:-/repo}}"
cd "$(dirname "$0")/../.."
exec go run ./props/c10/gen "$REPO" props/c10/registry_gen.go
