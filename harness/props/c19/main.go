// C19 — TON Connect proofs are accepted only for the key controlling the
// address. Oracle: harness/ref/wallet (ton_proof message, independent
// signer/verifier, wallet state-inits and addresses, server payload format)
// against tonconnect.Server.CheckProof with a scripted abi.Executor.
// Malformed inputs run in a child process so that a fatal error is recorded
// with its input. See DESIGN.md §5 C19.
package main

import (
	"bytes"
	"context"
	"crypto/ed25519"
	"encoding/base64"
	"encoding/binary"
	"encoding/hex"
	"encoding/json"
	"fmt"
	"hash/crc32"
	"math"
	"math/big"
	"os"
	"runtime"
	"sort"
	"strings"
	"sync"
	"sync/atomic"
	"time"

	tboc "github.com/tonkeeper/tongo/boc"
	"github.com/tonkeeper/tongo/tlb"
	"github.com/tonkeeper/tongo/ton"
	"github.com/tonkeeper/tongo/tonconnect"
	twallet "github.com/tonkeeper/tongo/wallet"

	"verifharness/mon"
	rbits "verifharness/ref/bits"
	rboc "verifharness/ref/boc"
	"verifharness/ref/cell"
	rwallet "verifharness/ref/wallet"
)

var sampleN, rejSampleN atomic.Int64

type verSpec struct {
	name  string
	t     twallet.Version
	r     rwallet.Version
	known bool // one of the wallet versions the statement quantifies over (v1r1 .. v5r1): the server must read the key from its state-init
	// derive: not in that list. Whether the server counts it as a known wallet is the library's choice;
	// it is taken from what ParseStateInit says about the wallet's genuine state-init (the wallet's key, or not)
	derive bool
}

var specs = []verSpec{
	{"V1R1", twallet.V1R1, rwallet.V1R1, true, false},
	{"V1R2", twallet.V1R2, rwallet.V1R2, true, false},
	{"V1R3", twallet.V1R3, rwallet.V1R3, true, false},
	{"V2R1", twallet.V2R1, rwallet.V2R1, true, false},
	{"V2R2", twallet.V2R2, rwallet.V2R2, true, false},
	{"V3R1", twallet.V3R1, rwallet.V3R1, true, false},
	{"V3R2", twallet.V3R2, rwallet.V3R2, true, false},
	{"V4R1", twallet.V4R1, rwallet.V4R1, true, false},
	{"V4R2", twallet.V4R2, rwallet.V4R2, true, false},
	{"V5Beta", twallet.V5Beta, rwallet.V5Beta, true, false},
	{"V5R1", twallet.V5R1, rwallet.V5R1, true, false},
	{"HighLoadV2R2", twallet.HighLoadV2R2, rwallet.HighloadV2R2, false, true},
}

// ---- scripted executor ----

type answer struct {
	key      []byte
	exitCode uint32
	err      error
	stack    tlb.VmStack // overrides key when non-nil
}

type executor struct {
	mu     sync.Mutex
	active map[ton.AccountID]answer
	calls  int64
}

const getPublicKeyMethod = 78748

func (e *executor) RunSmcMethodByID(ctx context.Context, a ton.AccountID, method int, params tlb.VmStack) (uint32, tlb.VmStack, error) {
	atomic.AddInt64(&e.calls, 1)
	e.mu.Lock()
	ans, ok := e.active[a]
	e.mu.Unlock()
	if !ok {
		return 0, nil, fmt.Errorf("scripted: account %s is not active", a.ToRaw())
	}
	if method != getPublicKeyMethod {
		return 11, nil, nil
	}
	if ans.err != nil {
		return 0, nil, ans.err
	}
	if ans.stack != nil {
		return ans.exitCode, ans.stack, nil
	}
	v := new(big.Int).SetBytes(ans.key)
	return ans.exitCode, tlb.VmStack{{SumType: "VmStkInt", VmStkInt: tlb.Int257(*v)}}, nil
}

func (e *executor) set(a ton.AccountID, ans *answer) {
	e.mu.Lock()
	if ans == nil {
		delete(e.active, a)
	} else {
		e.active[a] = *ans
	}
	e.mu.Unlock()
}

// ---- wallets ----

type wal struct {
	spec  verSpec
	priv  ed25519.PrivateKey
	pub   ed25519.PublicKey
	wc    int32
	addr  ton.AccountID
	raddr [32]byte
	si    tlb.StateInit
	siB64 string // reference-encoded state-init as a base64 BOC
	// custom describes non-default wallet parameters ("" = defaults); customRefused: asked for, but the wallet package and the reference disagree
	custom        string
	customRefused bool
}

func (w *wal) address() string { return fmt.Sprintf("%d:%s", w.wc, hex.EncodeToString(w.raddr[:])) }

func bocB64(roots ...*cell.Cell) string {
	b, err := rboc.Write(roots, rboc.Options{CRC: true, Index: false})
	if err != nil {
		panic("reference writer: " + err.Error())
	}
	return base64.StdEncoding.EncodeToString(b)
}

// walOpts selects the rarer kinds of wallet.
type walOpts struct {
	zeroLead int  // the public key starts with that many zero bytes (0, 1 or 2): get_public_key answers an integer, leading zeros vanish
	custom   bool // a sub-wallet number / network id other than the default
}

// grindKey draws key pairs until the public key starts with n zero bytes.
func grindKey(rng *mon.Rng, n int) ed25519.PrivateKey {
	for {
		priv := ed25519.NewKeyFromSeed(rng.Bytes(32))
		pub := priv.Public().(ed25519.PublicKey)
		ok := true
		for i := 0; i < n; i++ {
			if pub[i] != 0 {
				ok = false
			}
		}
		if ok {
			return priv
		}
	}
}

func newWal(s verSpec, rng *mon.Rng, o walOpts) (*wal, error) {
	w := &wal{spec: s}
	w.priv = grindKey(rng, o.zeroLead)
	w.pub = w.priv.Public().(ed25519.PublicKey)
	w.wc = int32(mon.Pick(rng, []int{0, 0, 0, -1}))
	var sub *uint32
	var net *int32
	if o.custom {
		// v5r1: the library has no option for the sub-wallet number (noted in DESIGN §11): only the network id varies there
		if rwallet.HasSubWallet(s.r) && s.r != rwallet.V5R1 {
			x := uint32(rng.Uint64())
			if rng.Bool() {
				x = uint32(rng.Intn(5))
			}
			sub = &x
		}
		if rwallet.HasNetworkID(s.r) {
			x := int32(mon.Pick(rng, []int{rwallet.TestnetGlobalID, rwallet.TestnetGlobalID, 0, 1, int(int32(rng.Uint64()))}))
			net = &x
		}
	}
	build := func(sub *uint32, net *int32) error {
		rp := rwallet.Params{Ver: s.r, Workchain: w.wc, SubWallet: sub, NetworkID: net}
		copy(rp.PubKey[:], w.pub)
		h, err := rwallet.Address(rp)
		if err != nil {
			return err
		}
		w.raddr = h
		rsi, _ := rwallet.InitialState(rp)
		w.siB64 = bocB64(rsi)
		w.addr, err = twallet.GenerateWalletAddress(w.pub, s.t, net, int(w.wc), sub)
		if err != nil {
			return err
		}
		if w.addr.Address != tlb.Bits256(h) {
			return fmt.Errorf("library address differs from the reference address for %s (C15's business)", s.name)
		}
		w.si, err = twallet.GenerateStateInit(w.pub, s.t, net, int(w.wc), sub)
		return err
	}
	if sub != nil || net != nil {
		if err := build(sub, net); err == nil {
			w.custom = fmt.Sprintf("sub-wallet=%v network=%v", deref(sub), deref(net))
			return w, nil
		}
		// the wallet package cannot build this variant the way the reference does: not this property's business
		w.customRefused = true
	}
	return w, build(nil, nil)
}

func deref[T any](p *T) any {
	if p == nil {
		return "default"
	}
	return *p
}

// ---- one call, observed ----

type outcome struct {
	ok    bool
	key   ed25519.PublicKey
	err   error
	panic *mon.Panic
}

func call(srv *tonconnect.Server, p *tonconnect.Proof, domain string) outcome {
	var o outcome
	o.panic = mon.Guard(func() {
		o.ok, o.key, o.err = srv.CheckProof(context.Background(), p, srv.CheckPayload, tonconnect.StaticDomain(domain))
	})
	return o
}

type env struct {
	sink mon.Sink
	wk   *mon.Worker
}

func (e env) begin(id string, p *tonconnect.Proof) {
	if e.wk != nil {
		b, _ := json.Marshal(p)
		e.wk.Begin(id, b)
	}
}
func (e env) end() {
	if e.wk != nil {
		e.wk.End()
	}
}

func witness(tag string, p *tonconnect.Proof, extra map[string]any) map[string]any {
	w := map[string]any{"entry": tag, "address": mon.Trunc(p.Address, 200), "timestamp": p.Proof.Timestamp, "domain": mon.Trunc(p.Proof.Domain, 300),
		"signature": mon.Trunc(p.Proof.Signature, 200), "payload": mon.Trunc(p.Proof.Payload, 200), "state_init": mon.Trunc(p.Proof.StateInit, 1500)}
	for k, v := range extra {
		w[k] = v
	}
	return w
}

// expectReject: (false, _, err != nil), no panic.
func (e env) expectReject(tag, cls string, srv *tonconnect.Server, p *tonconnect.Proof, domain string, extra map[string]any) {
	e.begin(tag, p)
	o := call(srv, p, domain)
	e.end()
	e.sink.Eval("reject/" + tag + "/" + cls)
	e.sink.Seen("rejection_entries", tag)
	e.sink.Count("rejections_checked", 1)
	switch {
	case o.panic != nil:
		w := witness(tag, p, extra)
		w["panic"], w["stack"] = o.panic.Value, mon.Trunc(o.panic.Stack, 1500)
		e.sink.Violation("panic@"+o.panic.Site+"/"+tag, w)
	case o.ok:
		w := witness(tag, p, extra)
		w["returned_key"] = mon.Hex(o.key)
		src := "malformed-input"
		if i := strings.LastIndex(cls, "/"); i >= 0 {
			src = cls[i+1:] // key source: get-method | state-init
		}
		e.sink.Violation("accepted@"+tag+"/"+src, w)
	case o.err == nil:
		e.sink.Violation("rejected-without-error@"+tag, witness(tag, p, extra))
	default:
		if n := rejSampleN.Add(1); n%1777 == 1 && n < 8000 {
			e.sink.Sample(map[string]any{"kind": "rejected", "entry": tag, "class": cls, "error": mon.Trunc(o.err.Error(), 200)})
		}
	}
}

func (e env) expectAccept(tag, cls string, srv *tonconnect.Server, p *tonconnect.Proof, domain string, key ed25519.PublicKey, t0 time.Time, extra map[string]any) bool {
	e.begin(tag, p)
	o := call(srv, p, domain)
	e.end()
	h := fmt.Sprintf("accept/%s/%s/%d/%d", tag, cls, len(p.Proof.Domain), p.Proof.Timestamp%7)
	e.sink.Eval(h + p.Proof.Signature[:8])
	e.sink.Seen("accept_classes", tag+"/"+cls)
	e.sink.Count("accepts_checked", 1)
	switch {
	case o.panic != nil:
		w := witness(tag, p, extra)
		w["panic"], w["stack"] = o.panic.Value, mon.Trunc(o.panic.Stack, 1500)
		e.sink.Violation("panic@"+o.panic.Site+"/"+tag, w)
	case !o.ok || o.err != nil:
		if time.Since(t0) > 30*time.Second {
			e.sink.Inconclusive("valid proof near the lifetime boundary checked more than 30 s after it was made")
			return false
		}
		w := witness(tag, p, extra)
		w["err"] = fmt.Sprint(o.err)
		e.sink.Violation("rejected-valid-proof@"+tag+"/"+cls, w)
	case string(o.key) != string(key):
		w := witness(tag, p, extra)
		w["returned_key"], w["wallet_key"] = mon.Hex(o.key), mon.Hex(key)
		e.sink.Violation("wrong-key-returned@"+tag+"/"+cls, w)
	default:
		if n := sampleN.Add(1); n%211 == 1 && n < 1000 {
			e.sink.Sample(map[string]any{"kind": "accepted", "entry": tag, "class": cls, "address": p.Address, "domain": mon.Trunc(p.Proof.Domain, 60),
				"timestamp": p.Proof.Timestamp, "payload": p.Proof.Payload, "returned_key": mon.Hex(o.key)})
		}
		return true
	}
	return false
}

// refProof builds a proof with the independent signer.
func refProof(w *wal, signer ed25519.PrivateKey, domain string, ts int64, payload string, withSI bool) *tonconnect.Proof {
	p := &tonconnect.Proof{Address: w.address()}
	p.Proof.Timestamp, p.Proof.Domain, p.Proof.Payload = ts, domain, payload
	p.Proof.Signature = rwallet.SignProof(signer, w.wc, w.raddr, domain, ts, payload)
	if withSI {
		p.Proof.StateInit = w.siB64
	}
	return p
}

func clone(p *tonconnect.Proof) *tonconnect.Proof { q := *p; return &q }

var domains = func() []string {
	return []string{"", "example.com", "tonkeeper.com", "пример.рф/путь", "日本語.jp", strings.Repeat("d", 255), "a b\x00c"}
}()

// ---- the matrix for one base proof ----

type base struct {
	idx      int
	spec     verSpec
	active   bool
	domain   string
	life     int64
	lifePay  int64
	oldTS    bool // timestamp = now - life + 60 instead of now
	oldPay   bool // payload with embedded time now - lifePay + 60 (crafted) instead of GeneratePayload
	allFlips bool
	zeroW    int  // leading zero bytes of the wallet's public key
	zeroO    int  // ... of the other wallet's
	custom   bool // non-default sub-wallet number / network id
}

func runBase(e env, b base, rngOf func(label string, i int) *mon.Rng) {
	rng := rngOf("base", b.idx)
	w, err := newWal(b.spec, rng, walOpts{zeroLead: b.zeroW, custom: b.custom})
	if err != nil {
		e.sink.Violation("error@wallet-setup/"+b.spec.name, map[string]any{"err": err.Error()})
		return
	}
	other, err := newWal(b.spec, rng, walOpts{zeroLead: b.zeroO})
	if err != nil {
		return
	}
	if b.zeroW > 0 || b.zeroO > 0 {
		e.sink.Count("bases_with_a_key_starting_with_zero_bytes", 1)
		e.sink.Seen("key_classes", fmt.Sprintf("wallet-key-zero-bytes=%d/other-key-zero-bytes=%d/active=%v", b.zeroW, b.zeroO, b.active))
	}
	if w.custom != "" {
		e.sink.Count("bases_with_custom_wallet_parameters", 1)
		e.sink.Seen("custom_wallet_parameters", b.spec.name)
	} else if w.customRefused {
		e.sink.Count("custom_wallet_parameters_not_buildable_with_the_wallet_package", 1)
	}
	known := b.spec.known
	if b.spec.derive {
		var k []byte
		var perr error
		if p := mon.Guard(func() { k, perr = tonconnect.ParseStateInit(w.siB64) }); p == nil && perr == nil && string(k) == string(w.pub) {
			known = true
		}
		e.sink.Seen("derived_known_wallet", fmt.Sprintf("%s=%v", b.spec.name, known))
	}
	ex := &executor{active: map[ton.AccountID]answer{}}
	secret := hex.EncodeToString(rng.Bytes(rng.Range(1, 24)))
	srv, err := tonconnect.NewTonConnect(ex, secret, tonconnect.WithLifeTimeProof(b.life), tonconnect.WithLifeTimePayload(b.lifePay))
	if err != nil {
		e.sink.Violation("error@NewTonConnect", map[string]any{"err": err.Error()})
		return
	}
	mode := "state-init"
	if b.active {
		mode = "get-method"
		ex.set(w.addr, &answer{key: w.pub})
		ex.set(other.addr, &answer{key: other.pub})
	}
	cls := b.spec.name + "/" + mode
	x := map[string]any{"version": b.spec.name, "mode": mode, "wallet_key": mon.Hex(w.pub), "proof_lifetime": b.life, "payload_lifetime": b.lifePay, "base": b.idx}
	if w.custom != "" {
		x["wallet_parameters"] = w.custom
	}

	mkPayload := func() string {
		if b.oldPay {
			var n [8]byte
			copy(n[:], rng.Bytes(8))
			return rwallet.ServerPayload(secret, n, time.Now().Unix()-b.lifePay+60)
		}
		var pl string
		var perr error
		if p := mon.Guard(func() { pl, perr = srv.GeneratePayload() }); p != nil || perr != nil {
			e.sink.Violation("error@GeneratePayload", map[string]any{"err": fmt.Sprint(perr, p)})
		}
		return pl
	}
	t0 := time.Now()
	payload := mkPayload()
	if payload == "" {
		return
	}
	ts := time.Now().Unix()
	if b.oldTS {
		ts = ts - b.life + 60
	}

	// the server's own view of a fresh payload
	var cpOK bool
	var cpErr error
	if p := mon.Guard(func() { cpOK, cpErr = srv.CheckPayload(payload) }); p != nil || !cpOK || cpErr != nil {
		if time.Since(t0) < 30*time.Second {
			wv := map[string]any{"payload": payload, "err": fmt.Sprint(cpErr, p), "crafted_by_reference": b.oldPay}
			e.sink.Violation("rejected-valid-payload@CheckPayload", wv)
		}
		return
	}

	// --- positives ---
	if !known && !b.active {
		// a wallet the server has no layout for and cannot query: nothing to accept; it must reject
		e.expectReject("state-init-of-unlisted-wallet-code", cls, srv, refProof(w, w.priv, b.domain, ts, payload, true), b.domain, x)
		return
	}
	var tp *tonconnect.Proof
	var terr error
	if p := mon.Guard(func() {
		tp, terr = tonconnect.CreateSignedProof(payload, w.addr, w.priv, w.si, tonconnect.ProofOptions{Timestamp: time.Unix(ts, 0), Domain: b.domain})
	}); p != nil || terr != nil {
		x2 := map[string]any{"err": fmt.Sprint(terr, p)}
		e.sink.Violation("error@CreateSignedProof/"+b.spec.name, x2)
		return
	}
	if !rwallet.VerifyProof(w.pub, tp.Proof.Signature, w.wc, w.raddr, b.domain, ts, payload) {
		e.sink.Violation("client-proof-fails-reference-verifier/"+b.spec.name, witness("CreateSignedProof", tp, x))
		return
	}
	if !b.active {
		// the client's state-init must be the wallet's (hash = address), judged by the reference
		if roots, _, _, rerr := readB64(tp.Proof.StateInit); rerr != nil || len(roots) != 1 || roots[0].Hash() != w.raddr {
			e.sink.Violation("client-state-init-does-not-hash-to-address/"+b.spec.name, witness("CreateSignedProof", tp, x))
			return
		}
	}
	good := e.expectAccept("CreateSignedProof", cls, srv, tp, b.domain, w.pub, t0, x)
	rp := refProof(w, w.priv, b.domain, ts, payload, true)
	good = e.expectAccept("reference-signer", cls, srv, rp, b.domain, w.pub, t0, x) && good
	if b.active {
		np := clone(rp)
		np.Proof.StateInit = ""
		e.expectAccept("reference-signer/no-state-init", cls, srv, np, b.domain, w.pub, t0, x)
	}
	if !b.active {
		// the same state-init as a foreign serializer may write it: cells carrying their (correct) hashes and depths
		if roots, _, _, rerr := readB64(w.siB64); rerr == nil && len(roots) == 1 {
			if si, werr := withHashesB64(roots[0], b.idx%2 == 0, b.idx%4 < 2, nil); werr == nil {
				hp := clone(rp)
				hp.Proof.StateInit = si
				e.expectAccept("reference-signer/state-init-written-with-hashes", cls, srv, hp, b.domain, w.pub, t0, x)
			} else {
				e.sink.Violation("harness/with-hashes-writer", map[string]any{"err": werr.Error()})
			}
		}
	}
	if !good {
		return
	}

	// --- one change at a time ---
	rej := func(tag string, p *tonconnect.Proof, dom string) { e.expectReject(tag, cls, srv, p, dom, x) }

	rej("signed-by-another-key", refProof(w, other.priv, b.domain, ts, payload, true), b.domain)

	p := clone(rp)
	p.Address = other.address()
	rej("address-of-another-wallet", p, b.domain)
	if !b.active {
		p = clone(rp)
		p.Address = other.address()
		p.Proof.StateInit = other.siB64 // consistent pair of another wallet, signature by this one
		rej("address-and-state-init-of-another-wallet", p, b.domain)
	}
	p = clone(rp)
	p.Address = fmt.Sprintf("%d:%s", -1-w.wc, hex.EncodeToString(w.raddr[:])) // same hash, other workchain
	if b.active {
		ex.set(ton.AccountID{Workchain: -1 - w.wc, Address: w.addr.Address}, &answer{key: w.pub})
	}
	rej("workchain-changed", p, b.domain)
	// the same account part in workchains that agree with the signed one in their low bits (the signed message
	// carries the workchain as 32 bits; a standard address holds 8): +-256*k, the unsigned reading of -1, and
	// other widths. The key is obtainable for each of them: the executor answers for that account too, or the
	// state-init hashes to the account part.
	wcs := []int64{int64(w.wc) + 256, int64(w.wc) - 256, int64(w.wc) + 512, int64(w.wc) - 512, int64(w.wc) + 256*1000, int64(w.wc) - 256*(1<<23), int64(w.wc) + 256*(1<<23) - 256,
		int64(w.wc) + 1<<16, int64(w.wc) - 1<<16, int64(w.wc) + 1<<24, int64(uint8(w.wc)) + 256*int64(rng.Intn(3)), int64(w.wc) + 128, int64(w.wc) - 128, int64(w.wc) + 1, int64(w.wc) + 256*int64(1+rng.Intn(1<<22))}
	if w.wc == -1 {
		wcs = append(wcs, 255, 65535, 1<<31-1)
	}
	for _, wc2 := range wcs {
		if wc2 == int64(w.wc) || wc2 < math.MinInt32 || wc2 > math.MaxInt32 {
			continue
		}
		p = clone(rp)
		p.Address = fmt.Sprintf("%d:%s", wc2, hex.EncodeToString(w.raddr[:]))
		if b.active {
			ex.set(ton.AccountID{Workchain: int32(wc2), Address: w.addr.Address}, &answer{key: w.pub})
		}
		rej("workchain-changed/same-low-bits-or-other-width", p, b.domain)
	}

	d2 := b.domain + "x"
	p = clone(rp)
	p.Proof.Domain = d2
	rej("domain-changed-after-signing", p, d2)
	rej("domain-not-the-servers", rp, d2)
	if len(b.domain) > 0 {
		p = clone(rp)
		p.Proof.Domain = b.domain[:len(b.domain)-1]
		rej("domain-truncated", p, p.Proof.Domain)
	}

	for _, d := range []int64{1, -1, 1 << 32, 1 << 33, 1 << 40, 1 << 48, 1 << 56, 1 << 62} {
		p = clone(rp)
		p.Proof.Timestamp = ts + d
		if d == -1 && b.oldTS {
			continue
		}
		rej("timestamp-changed", p, b.domain)
	}

	if p2 := mkPayload(); p2 != "" && p2 != payload {
		p = clone(rp)
		p.Proof.Payload = p2
		rej("payload-changed-to-another-valid-one", p, b.domain)
	}

	// every (or a sample of) signature bit(s)
	sig, _ := base64.StdEncoding.DecodeString(rp.Proof.Signature)
	flips := 0
	for i := 0; i < 512; i++ {
		if !b.allFlips && !(i < 8 || i >= 504 || i == 255 || i == 256 || rng.Chance(1, 32)) {
			continue
		}
		s2 := append([]byte(nil), sig...)
		s2[i/8] ^= 1 << uint(7-i%8)
		p = clone(rp)
		p.Proof.Signature = base64.StdEncoding.EncodeToString(s2)
		o := call(srv, p, b.domain)
		flips++
		if o.panic != nil || o.ok || o.err == nil {
			x2 := witness("signature-bit-flipped", p, x)
			x2["bit"] = i
			if o.panic != nil {
				x2["panic"] = o.panic.Value
				e.sink.Violation("panic@"+o.panic.Site+"/signature-bit-flipped", x2)
			} else if o.ok {
				e.sink.Violation("accepted@signature-bit-flipped/"+cls, x2)
			} else {
				e.sink.Violation("rejected-without-error@signature-bit-flipped", x2)
			}
			break
		}
	}
	e.sink.EvalN(int64(flips), "sigflip/"+cls)
	e.sink.Count("signature_bit_flips", int64(flips))
	e.sink.Seen("rejection_entries", "signature-bit-flipped")

	// state-init substitutions (matter when the key has to come from the state-init)
	if !b.active {
		p = clone(rp)
		p.Proof.StateInit = other.siB64
		rej("state-init-of-another-key", p, b.domain)

		// the impersonation the address comparison exists for: this wallet's address, but state-init
		// and signature of another key holder (everything else consistent)
		imp := refProof(w, other.priv, b.domain, ts, payload, false)
		imp.Proof.StateInit = other.siB64
		rej("victim-address-with-state-init-and-signature-of-another-key", imp, b.domain)

		// unknown code: a state-init that does hash to the claimed address, signed by the attacker
		code := cell.New(rng.Bits(rng.Range(1, 300)), false)
		data, _ := rwallet.DataCell(rwallet.Params{Ver: b.spec.r, PubKey: [32]byte(other.pub)}, 0)
		usi := rwallet.StateInit(code, data)
		u := &wal{spec: b.spec, priv: other.priv, pub: other.pub, wc: w.wc, raddr: usi.Hash(), siB64: bocB64(usi)}
		rej("state-init-with-unknown-code", refProof(u, other.priv, b.domain, ts, payload, true), b.domain)

		// same key, other version's data under this version's code is still this wallet's business; instead:
		// the wallet's own state-init with one data bit changed no longer hashes to the address
		rsi, _, _, _ := readB64(w.siB64)
		parts, _ := rwallet.ParseStateInit(rsi[0])
		db := append([]bool(nil), parts.Data.Bits...)
		k := rng.Intn(len(db))
		db[k] = !db[k]
		msi := rwallet.StateInit(parts.Code, cell.New(db, false))
		p = clone(rp)
		p.Proof.StateInit = bocB64(msi)
		rej("state-init-not-hashing-to-address", p, b.domain)

		// the same impersonation with a bag that claims to be the victim's: the attacker's state-init written
		// "with hashes", the hash stored for its root replaced by the victim's address. What the state-init hashes
		// to is decided by its content, never by what the bag says about itself.
		if oroots, _, _, rerr := readB64(other.siB64); rerr == nil && len(oroots) == 1 {
			for v := 0; v < 4; v++ {
				si, werr := withHashesB64(oroots[0], v&1 == 1, v&2 == 2, &w.raddr)
				if werr != nil {
					e.sink.Violation("harness/with-hashes-writer", map[string]any{"err": werr.Error()})
					break
				}
				imp := refProof(w, other.priv, b.domain, ts, payload, false)
				imp.Proof.StateInit = si
				rej("victim-address-with-attackers-state-init-storing-the-victims-hash", imp, b.domain)
			}
			// and the victim's own state-init with one data bit changed, still announcing the victim's hash
			if si, werr := withHashesB64(msi, false, false, &w.raddr); werr == nil {
				p = clone(rp)
				p.Proof.StateInit = si
				rej("changed-state-init-storing-the-original-hash", p, b.domain)
			}
		}

		p = clone(rp)
		p.Proof.StateInit = ""
		rej("state-init-missing", p, b.domain)
	} else {
		// the chain says the account's key is another one: a proof by the state-init's key must not pass
		ex.set(w.addr, &answer{key: other.pub})
		rej("on-chain-key-is-another-key", rp, b.domain)
		ex.set(w.addr, &answer{key: w.pub})
	}

	// expiry (60 s margins; the clock is read right before signing)
	now := time.Now().Unix()
	rej("proof-expired", refProof(w, w.priv, b.domain, now-b.life-60, payload, true), b.domain)
	// correctly signed proofs from the far past, down to the ends of the 64-bit field (and where seconds
	// turned into nanoseconds leave the 64-bit range): all of them are older than any lifetime
	const wrapNs = 18446744074 // 2^64 ns in seconds, rounded up
	for _, old := range []int64{0, 1, -1, now - 1<<31, -1 << 31, -1 << 32, -1<<33 - 5, -9223372036, -9223372037, -9223372038, -9300000000, now - wrapNs, now - wrapNs + 1, now - 2*wrapNs, now - 3*wrapNs,
		-1 << 40, -1 << 48, -1<<62 + 12345, -1 << 62, math.MinInt64 + 1, math.MinInt64, now - int64(rng.Uint64()>>uint(1+rng.Intn(30))) - b.life - 60} {
		rej("proof-expired/far-past", refProof(w, w.priv, b.domain, old, payload, true), b.domain)
	}
	var n8 [8]byte
	copy(n8[:], rng.Bytes(8))
	stale := rwallet.ServerPayload(secret, n8, time.Now().Unix()-b.lifePay-60)
	rej("payload-expired", refProof(w, w.priv, b.domain, ts, stale, true), b.domain)
	foreign := rwallet.ServerPayload(secret+"x", n8, time.Now().Unix())
	rej("payload-under-another-secret", refProof(w, w.priv, b.domain, ts, foreign, true), b.domain)
	fb, _ := hex.DecodeString(payload)
	fb[rng.Intn(16)] ^= 1 << uint(rng.Intn(8))
	rej("payload-body-bit-flipped", refProof(w, w.priv, b.domain, ts, hex.EncodeToString(fb), true), b.domain)
	fb, _ = hex.DecodeString(payload)
	fb[16+rng.Intn(16)] ^= 1 << uint(rng.Intn(8))
	rej("payload-mac-bit-flipped", refProof(w, w.priv, b.domain, ts, hex.EncodeToString(fb), true), b.domain)
	for _, bad := range []string{"", payload[:62], payload + "00", payload[:63], "zz" + payload[2:], payload[:32], strings.ToUpper(payload) + " "} {
		rej("payload-wrong-length-or-bad-hex", refProof(w, w.priv, b.domain, ts, bad, true), b.domain)
	}
}

// withHashesB64 writes a state-init the way a foreign serializer may: cells carry their hashes and depths in
// front of the data ("with hashes" flag, d1 & 0x10) - the root only, or every cell. With forge != nil the hash
// stored for the root is replaced by *forge: a bag whose stored hash is not the hash of what it contains.
func withHashesB64(root *cell.Cell, everyCell, crc bool, forge *[32]byte) (string, error) {
	raw, err := rboc.Write([]*cell.Cell{root}, rboc.Options{CRC: crc, WithHashes: func(i int, c *cell.Cell) bool { return everyCell || c == root }})
	if err != nil {
		return "", err
	}
	if forge != nil {
		h := root.Hash()
		k := bytes.Index(raw, h[:])
		if k < 0 || bytes.Index(raw[k+1:], h[:]) >= 0 {
			return "", fmt.Errorf("stored root hash not found exactly once in the bag")
		}
		copy(raw[k:], forge[:])
		if crc {
			binary.LittleEndian.PutUint32(raw[len(raw)-4:], crc32.Checksum(raw[:len(raw)-4], castagnoli))
		}
	}
	return base64.StdEncoding.EncodeToString(raw), nil
}

var castagnoli = crc32.MakeTable(crc32.Castagnoli)

// emptyBag is the generic bag of cells with 0 cells and 0 roots (size 1, offset size 1), optionally with its CRC.
func emptyBag(crc bool) []byte {
	b := []byte{0xb5, 0xee, 0x9c, 0x72, 0x01, 0x01, 0x00, 0x00, 0x00, 0x00}
	if crc {
		b[4] |= 0x40
		b = binary.LittleEndian.AppendUint32(b, crc32.Checksum(b, castagnoli))
	}
	return b
}

// withoutRoots takes a generic bag written by the reference writer (CRC, no index) and declares 0 roots:
// the root list is removed, the cells stay.
func withoutRoots(raw []byte, crc bool) []byte {
	if len(raw) < 12 || raw[4]&0x80 != 0 || raw[4]&0x40 == 0 {
		panic("withoutRoots: expected a generic bag with crc and without index")
	}
	size, off := int(raw[4]&7), int(raw[5])
	roots := 0
	for _, x := range raw[6+size : 6+2*size] {
		roots = roots<<8 | int(x)
	}
	listAt := 6 + 3*size + off
	out := append([]byte(nil), raw[:listAt]...)
	out = append(out, raw[listAt+roots*size:len(raw)-4]...)
	for i := 6 + size; i < 6+2*size; i++ {
		out[i] = 0
	}
	if crc {
		out = binary.LittleEndian.AppendUint32(out, crc32.Checksum(out, castagnoli))
	} else {
		out[4] &^= 0x40
	}
	return out
}

func readB64(s string) ([]*cell.Cell, []*cell.Cell, *rboc.Header, error) {
	b, err := base64.StdEncoding.DecodeString(s)
	if err != nil {
		return nil, nil, nil, err
	}
	return rboc.Read(b)
}

// ---- malformed inputs (child process) ----

type malJob struct {
	From, To int
}

func malformedWorker(wk *mon.Worker) {
	var job malJob
	if err := json.Unmarshal(wk.Job, &job); err != nil {
		wk.HarnessError("bad job: " + err.Error())
		return
	}
	e := env{sink: wk, wk: wk}
	for i := job.From; i < job.To; i++ {
		runMalformed(e, i, wk.Rng)
	}
}

func runMalformed(e env, idx int, rngOf func(label string, i int) *mon.Rng) {
	rng := rngOf("mal", idx)
	known := specs[:11]
	s := known[idx%len(known)]
	w, err := newWal(s, rng, walOpts{})
	if err != nil {
		e.sink.Violation("error@wallet-setup/"+s.name, map[string]any{"err": err.Error()})
		return
	}
	ex := &executor{active: map[ton.AccountID]answer{}}
	secret := "s" + hex.EncodeToString(rng.Bytes(8))
	srv, err := tonconnect.NewTonConnect(ex, secret)
	if err != nil {
		return
	}
	domain := "example.com"
	payload, err := srv.GeneratePayload()
	if err != nil {
		return
	}
	ts := time.Now().Unix()
	x := map[string]any{"version": s.name, "case": idx}
	goodSI := refProof(w, w.priv, domain, ts, payload, true)
	// sanity: the base is accepted, so every rejection below is due to the one malformed field
	if !e.expectAccept("malformed-base", s.name, srv, goodSI, domain, w.pub, time.Now(), x) {
		return
	}
	rej := func(tag string, p *tonconnect.Proof) { e.expectReject(tag, s.name, srv, p, domain, x) }
	mode := idx / len(known) % 2 // alternate: account active / not active
	if mode == 1 {
		ex.set(w.addr, &answer{key: w.pub})
	}

	// signature field
	for _, sg := range []string{"!!!not-base64", "", "AAAA", base64.StdEncoding.EncodeToString(rng.Bytes(63)), base64.StdEncoding.EncodeToString(rng.Bytes(65)),
		base64.StdEncoding.EncodeToString(make([]byte, 64)), strings.TrimRight(goodSI.Proof.Signature, "="), base64.URLEncoding.EncodeToString(append([]byte{0xfb, 0xff}, rng.Bytes(62)...))} {
		p := clone(goodSI)
		p.Proof.Signature = sg
		rej("malformed-signature", p)
	}

	// address field
	hx := hex.EncodeToString(w.raddr[:])
	for _, a := range []string{"", "0", hx, "0" + hx, "0:", ":" + hx, "0:" + hx[:63], "0:" + hx[:4], "0:" + hx[:62], "0:" + hx + "00", "x:" + hx, "99999999999:" + hx,
		"0:" + "zz" + hx[2:], "0:" + hx + ":1", "0x0:" + hx, "-:" + hx, "0:" + strings.Repeat("0", 64)} {
		if a == fmt.Sprintf("%d:%s", w.wc, hx) {
			continue
		}
		p := clone(goodSI)
		p.Address = a
		rej("malformed-address", p)
	}
	// other spellings of the same account (user-friendly form, surrounding blanks, upper-case hex): the statement does not
	// call them malformed; a server may refuse them or resolve them to the account. Only a crash, a rejection without an
	// error or somebody else's key would be wrong.
	for _, a := range []string{w.addr.ToHuman(true, false), w.addr.ToHuman(false, false), " " + w.address(), w.address() + " ", fmt.Sprintf("%d:%s", w.wc, strings.ToUpper(hx)), fmt.Sprintf("+%d:%s", w.wc, hx),
		// the account part without its leading zero digits (raw addresses are zero-filled by ton.ParseAccountID): the same account, or no address at all
		fmt.Sprintf("%d:%s", w.wc, strings.TrimLeft(hx, "0")), fmt.Sprintf("%d:%s", w.wc, strings.TrimPrefix(hx, "00"))} {
		if a == w.address() {
			continue
		}
		p := clone(goodSI)
		p.Address = a
		e.begin("other-spelling-of-the-address", p)
		o := call(srv, p, domain)
		e.end()
		e.sink.Eval("spelling/" + s.name)
		switch {
		case o.panic != nil:
			wv := witness("other-spelling-of-the-address", p, x)
			wv["panic"], wv["stack"] = o.panic.Value, mon.Trunc(o.panic.Stack, 1500)
			e.sink.Violation("panic@"+o.panic.Site+"/other-spelling-of-the-address", wv)
		case o.ok && string(o.key) != string(w.pub):
			e.sink.Violation("wrong-key-returned@other-spelling-of-the-address", witness("other-spelling-of-the-address", p, x))
		case !o.ok && o.err == nil:
			e.sink.Violation("rejected-without-error@other-spelling-of-the-address", witness("other-spelling-of-the-address", p, x))
		case o.ok:
			e.sink.Count("other_spellings_of_the_address_accepted", 1)
		default:
			e.sink.Count("other_spellings_of_the_address_refused", 1)
		}
	}

	// state-init field; the account is not active for these (the key has to come from the state-init)
	ex.set(w.addr, nil)
	rsi, _, _, _ := readB64(w.siB64)
	parts, _ := rwallet.ParseStateInit(rsi[0])
	raw, _ := base64.StdEncoding.DecodeString(w.siB64)
	type siCase struct {
		tag  string
		si   string
		addr *[32]byte // address that equals the hash of the state-init (so that only the content is at fault)
	}
	hashOf := func(c *cell.Cell) *[32]byte { h := c.Hash(); return &h }
	noCode := rwallet.StateInit(nil, parts.Data)
	noData := rwallet.StateInit(parts.Code, nil)
	neither := rwallet.StateInit(nil, nil)
	empty := cell.New(nil, false)
	shortData := rwallet.StateInit(parts.Code, cell.New(rng.Bits(rng.Intn(64)), false))
	selfRef := []byte{0xb5, 0xee, 0x9c, 0x72, 0x01, 0x01, 0x01, 0x01, 0x00, 0x03, 0x00, 0x01, 0x00, 0x00} // one cell, d1=1 ref, d2=0, ref -> itself
	cases := []siCase{
		{"state-init-without-code", bocB64(noCode), hashOf(noCode)},
		{"state-init-without-data", bocB64(noData), hashOf(noData)},
		{"state-init-without-code-and-data", bocB64(neither), hashOf(neither)},
		{"state-init-empty-cell", bocB64(empty), hashOf(empty)},
		{"state-init-data-too-short", bocB64(shortData), hashOf(shortData)},
		{"state-init-two-roots", bocB64(rsi[0], noCode), nil},
		{"state-init-two-roots", bocB64(noCode, rsi[0]), hashOf(noCode)},
		{"state-init-two-equal-roots", bocB64(rsi[0], rsi[0]), nil},
		{"state-init-three-roots", bocB64(rsi[0], noCode, noData), nil},
		// bags that are well-formed but have no root at all: no cells, or this wallet's cells without the root list
		{"state-init-zero-roots/no-cells", base64.StdEncoding.EncodeToString(emptyBag(false)), nil},
		{"state-init-zero-roots/no-cells", base64.StdEncoding.EncodeToString(emptyBag(true)), nil},
		{"state-init-zero-roots/with-cells", base64.StdEncoding.EncodeToString(withoutRoots(raw, false)), nil},
		{"state-init-zero-roots/with-cells", base64.StdEncoding.EncodeToString(withoutRoots(raw, true)), nil},
		{"state-init-zero-roots/one-empty-cell", base64.StdEncoding.EncodeToString([]byte{0xb5, 0xee, 0x9c, 0x72, 0x01, 0x01, 0x01, 0x00, 0x00, 0x02, 0x00, 0x00}), nil},
		{"state-init-random-bytes", base64.StdEncoding.EncodeToString(rng.Bytes(rng.Range(1, 200))), nil},
		{"state-init-not-base64", "%%%" + w.siB64, nil},
		{"state-init-base64url", base64.URLEncoding.EncodeToString(append([]byte{0xfb, 0xef}, raw...)), nil},
		{"state-init-magic-then-garbage", base64.StdEncoding.EncodeToString(append([]byte{0xb5, 0xee, 0x9c, 0x72}, rng.Bytes(rng.Range(0, 120))...)), nil},
		{"state-init-self-referencing-cell", base64.StdEncoding.EncodeToString(selfRef), nil},
		{"state-init-truncated", base64.StdEncoding.EncodeToString(raw[:rng.Intn(len(raw))]), nil},
		{"state-init-trailing-bytes", base64.StdEncoding.EncodeToString(append(append([]byte(nil), raw...), rng.Bytes(5)...)), nil},
	}
	// a run of single-byte corruptions of the valid BOC
	for k := 0; k < 12; k++ {
		c := append([]byte(nil), raw...)
		c[rng.Intn(len(c))] ^= byte(1 << uint(rng.Intn(8)))
		cases = append(cases, siCase{"state-init-byte-corrupted", base64.StdEncoding.EncodeToString(c), nil})
	}
	for _, c := range cases {
		variants := []*[32]byte{nil}
		if c.addr != nil {
			variants = []*[32]byte{c.addr, nil}
		}
		for _, av := range variants {
			u := *w
			if av != nil {
				u.raddr = *av
			}
			u.siB64 = c.si
			p := refProof(&u, w.priv, domain, ts, payload, true)
			tag := c.tag
			if av != nil {
				tag += "/address=hash"
			}
			if c.tag == "state-init-byte-corrupted" || c.tag == "state-init-trailing-bytes" {
				// a corruption may leave the state-init intact (unused bits): only a crash or a wrong key would be wrong
				e.begin(tag, p)
				o := call(srv, p, domain)
				e.end()
				e.sink.Eval("corrupt/" + s.name)
				if o.panic != nil {
					wv := witness(tag, p, x)
					wv["panic"], wv["stack"] = o.panic.Value, mon.Trunc(o.panic.Stack, 1500)
					e.sink.Violation("panic@"+o.panic.Site+"/"+tag, wv)
				} else if o.ok && string(o.key) != string(w.pub) {
					e.sink.Violation("wrong-key-returned@"+tag, witness(tag, p, x))
				} else if !o.ok && o.err == nil {
					e.sink.Violation("rejected-without-error@"+tag, witness(tag, p, x))
				}
			} else {
				rej(tag, p)
			}
		}
		// the exported parser on its own: must not crash, and must not hand out a key for these
		var k []byte
		var perr error
		if e.wk != nil {
			e.wk.Begin("ParseStateInit/"+c.tag, []byte(c.si))
		}
		pp := mon.Guard(func() { k, perr = tonconnect.ParseStateInit(c.si) })
		e.end()
		e.sink.Eval("parse/" + c.tag)
		if pp != nil {
			e.sink.Violation("panic@"+pp.Site+"/ParseStateInit/"+c.tag, map[string]any{"state_init": mon.Trunc(c.si, 1500), "panic": pp.Value})
		} else if perr == nil && (strings.HasPrefix(c.tag, "state-init-zero-roots") || strings.Contains(c.tag, "-roots")) {
			// a bag with no root or with several roots is not a state-init: an error, never a key
			e.sink.Violation("no-error@ParseStateInit/"+c.tag, map[string]any{"state_init": mon.Trunc(c.si, 1500), "returned_key": mon.Hex(k)})
		} else if perr == nil && len(k) != ed25519.PublicKeySize {
			e.sink.Seen("observed", fmt.Sprintf("ParseStateInit returns a %d-byte key and a nil error for %s", len(k), c.tag))
		}
	}

	// get-method answers that are not a key
	ex.set(w.addr, &answer{stack: tlb.VmStack{}})
	p := clone(goodSI)
	p.Proof.StateInit = ""
	rej("get-method-empty-stack", p)
	ex.set(w.addr, &answer{stack: tlb.VmStack{{SumType: "VmStkNull"}}})
	rej("get-method-null", p)
	ex.set(w.addr, &answer{key: w.pub, exitCode: 11})
	rej("get-method-exit-code-11", p)
	ex.set(w.addr, &answer{stack: tlb.VmStack{{SumType: "VmStkTinyInt", VmStkTinyInt: 5}}})
	rej("get-method-tiny-key", p)
	ex.set(w.addr, &answer{err: fmt.Errorf("scripted: lite server error")})
	rej("get-method-error", p)
	_ = rbits.Equal
}

func main() {
	if mon.IsWorker() {
		mon.WorkerMain(map[string]func(*mon.Worker){"malformed": malformedWorker})
		return
	}
	tier := "quick"
	if len(os.Args) > 1 {
		tier = os.Args[1]
	}
	R := mon.Start("C19", tier)
	R.Rule = "each base = (wallet version, key source: get_public_key answer or state-init, domain, lifetimes, fresh or nearly expired timestamp/payload); a proof by tonconnect.CreateSignedProof (also judged by the reference verifier) and one by the independent reference signer must be accepted with the wallet's key; then one field is changed at a time (rejection matrix incl. signature bit flips, state-init substitutions, expiry at lifetime+60 s, payload forgeries) and must give (false, _, err); bases include wallets whose public key starts with zero byte(s) (for the wallet and for the other party, both key sources), wallets with a non-default sub-wallet number / network id, and timestamp substitutions in every byte of the 64-bit field; the signed account part presented in workchains that share the low 8/16/24 bits with the signed one (+-256*k, 255 for -1, ...) with the key obtainable there; correctly signed proofs with far-past and negative timestamps down to the ends of the 64-bit field must be refused as expired; state-inits written by a foreign serializer with stored hashes must be accepted when the hashes are right and can never make a state-init pass for an address its content does not hash to (stored root hash replaced by the victim's address); one server shared by 16 goroutines must judge every payload and proof as a single-threaded one would; whether a wallet version outside v1r1..v5r1 is a known wallet is taken from ParseStateInit on its genuine state-init; other spellings of the right address (user-friendly form, blanks, upper case) may be accepted or refused; malformed proofs run in child processes under a panic guard; non-trivial = every CheckProof call judged; distinct = (matrix entry, version, key source) classes and distinct accepted proofs"
	R.Assume("reference ton_proof message and signer in harness/ref/wallet are written from the ton-connect specification; no literal network vector for ton_proof exists in the repository, so a shared misreading of that document would go unnoticed")
	R.Assume("wallet state-inits and addresses come from the reference wallet model (validated at start-up against real address vectors)")
	R.Assume("proof timestamps in the future are not part of the statement and are not tested")
	sc, err := rwallet.SelfCheck()
	if err != nil {
		R.HarnessError("reference wallet model failed its self-check: %v", err)
		os.Exit(R.Finish())
	}
	R.Extra("model_selfcheck", sc)

	// --- positive + rejection matrix, in process ---
	nBases := R.N(288, 3600)
	var bases []base
	for i := 0; i < nBases; i++ {
		rng := R.Rng("plan", i)
		b := base{idx: i, spec: specs[i%len(specs)], active: (i/len(specs))%2 == 0}
		b.domain = domains[(i/(2*len(specs)))%len(domains)]
		if rng.Chance(1, 5) {
			b.domain = string(rng.Bytes(rng.Range(1, 40)))
		}
		b.life = mon.Pick(rng, []int64{300, 300, 120, 3600, 86400})
		b.lifePay = mon.Pick(rng, []int64{300, 300, 120, 3600})
		b.oldTS = rng.Chance(1, 3)
		b.oldPay = rng.Chance(1, 3)
		b.allFlips = R.Thorough() || i%6 == 0
		// a quarter of the bases each: the wallet's / the other wallet's public key starts with a zero byte
		// (as an integer from get_public_key it is shorter than 32 bytes); two zero bytes in a few thorough bases
		switch (i / (2 * len(specs))) % 4 {
		case 1:
			b.zeroW = 1
		case 3:
			b.zeroO = 1
		}
		if R.Thorough() && i%300 == 24 {
			b.zeroW, b.zeroO = 2, 0
		}
		b.custom = rng.Chance(1, 4)
		bases = append(bases, b)
	}
	e := env{sink: R}
	par := runtime.GOMAXPROCS(0)
	if par > 16 {
		par = 16
	}
	var wg sync.WaitGroup
	var next int64 = -1
	for g := 0; g < par; g++ {
		wg.Add(1)
		go func() {
			defer wg.Done()
			for {
				i := int(atomic.AddInt64(&next, 1))
				if i >= len(bases) {
					return
				}
				if p := mon.Guard(func() { runBase(e, bases[i], R.Rng) }); p != nil {
					if p.Site == "?" {
						R.HarnessError("harness panic in base %d: %s\n%s", i, p.Value, mon.Trunc(p.Stack, 1000))
					} else {
						R.Violation("panic@"+p.Site+"/matrix", map[string]any{"panic": p.Value, "stack": mon.Trunc(p.Stack, 1500), "base": i})
					}
				}
			}
		}()
	}
	wg.Wait()
	R.Extra("bases", len(bases))

	// --- a proof that nobody signed: for every wallet code the library publishes, a state-init with that
	// code and junk data, an address equal to its hash, an account that does not answer get_public_key, and
	// the degenerate signature (R = neutral element, S = 0), which verifies under a small-order key for one
	// message in four. It must never be accepted: either the code is not a known wallet, or the key
	// parsed from the junk data is a real 32-byte value under which the degenerate signature fails.
	keyless(R)

	// --- one server used by many goroutines at once (an HTTP backend does exactly that): every payload it issued
	// must check true, every tampered or foreign one false, every valid proof must be accepted with the wallet's
	// key and every tampered one refused, whatever the other goroutines are doing
	sharedServer(R)

	// --- payloads issued by the server itself expire after their lifetime (decided by waiting: the
	// verdict "must be rejected" only gets safer when the machine is slow)
	var wgp sync.WaitGroup
	// lifetimes 1 s and 3 s, each judged after lifetime + 1.3 s: the embedded time stamp has whole seconds, so
	// a payload that lives twice its lifetime is still alive then for lifetime 3 whatever the fraction of
	// the second it was issued in (6 - 1 > 4.3), and a correct one is dead for both
	for i, life := range []int64{1, 3} {
		wgp.Add(1)
		go func(i int, life int64) {
			defer wgp.Done()
			srv, err := tonconnect.NewTonConnect(&executor{}, "secret-"+fmt.Sprint(i), tonconnect.WithLifeTimePayload(life))
			if err != nil {
				R.HarnessError("NewTonConnect: %v", err)
				return
			}
			long, _ := tonconnect.NewTonConnect(&executor{}, "secret-"+fmt.Sprint(i), tonconnect.WithLifeTimePayload(3600))
			var pay string
			if p := mon.Guard(func() { pay, err = srv.GeneratePayload() }); p != nil || err != nil {
				R.Violation("error@GeneratePayload", map[string]any{"err": fmt.Sprint(err, p)})
				return
			}
			// fresh: accepted by a server with the same secret and a long lifetime
			if ok, _ := long.CheckPayload(pay); !ok {
				R.Violation("rejected@fresh-payload-of-GeneratePayload", map[string]any{"payload": pay})
			}
			time.Sleep(time.Duration(life)*time.Second + 1300*time.Millisecond)
			ok, cerr := srv.CheckPayload(pay)
			R.Eval(fmt.Sprintf("payload-expiry-by-waiting/%d", life))
			if ok {
				R.Violation("accepted@payload-of-GeneratePayload-after-its-lifetime", map[string]any{"lifetime_s": life, "waited_ms": life*1000 + 1300, "payload": pay, "err": fmt.Sprint(cerr)})
			}
		}(i, life)
	}

	// --- malformed inputs, in child processes (a fatal error names its input) ---
	nMal := R.N(88, 880)
	per := 11
	var jobs []mon.Job
	for from := 0; from < nMal; from += per {
		jobs = append(jobs, mon.Job{Name: "malformed", Input: malJob{From: from, To: from + per}})
	}
	R.RunJobs(jobs, mon.ChildOpts{UlimitKiB: 6 << 20, Parallel: 8, Timeout: 5 * time.Minute}, func(c mon.Crash) {
		if c.TimedOut {
			R.Inconclusive("malformed-input worker hit the wall-clock watchdog")
			return
		}
		R.Violation("fatal@"+mon.FatalClass(c.Stderr)+"/"+strings.SplitN(c.Case, "/address", 2)[0],
			map[string]any{"case": c.Case, "input": mon.Trunc(string(c.Input), 3000), "exit": c.ExitInfo, "stderr": c.Stderr})
	})
	R.Extra("malformed_wallets", nMal)
	wgp.Wait()
	os.Exit(R.Finish())
}

// sharedServer: see the call site. Lifetimes are an hour, so nothing here depends on the clock.
func sharedServer(R *mon.Run) {
	ex := &executor{active: map[ton.AccountID]answer{}}
	secret := "shared-" + hex.EncodeToString(R.Rng("shared", 0).Bytes(12))
	srv, err := tonconnect.NewTonConnect(ex, secret, tonconnect.WithLifeTimeProof(3600), tonconnect.WithLifeTimePayload(3600))
	if err != nil {
		R.HarnessError("NewTonConnect: %v", err)
		return
	}
	const workers = 16
	iters := R.N(250, 4000)
	var mu sync.Mutex
	first := map[string]map[string]any{}
	report := func(sig string, w map[string]any) {
		mu.Lock()
		if _, ok := first[sig]; !ok {
			first[sig] = w
		}
		mu.Unlock()
	}
	var wg sync.WaitGroup
	var progress atomic.Int64
	for g := 0; g < workers; g++ {
		wg.Add(1)
		go func(g int) {
			defer wg.Done()
			rng := R.Rng("shared-worker", g)
			spec := specs[g%11]
			w, err := newWal(spec, rng, walOpts{})
			if err != nil {
				report("error@wallet-setup/"+spec.name, map[string]any{"err": err.Error()})
				return
			}
			if g%2 == 0 {
				ex.set(w.addr, &answer{key: w.pub})
			}
			domain := "shared.example"
			for it := 0; it < iters; it++ {
				var pay string
				var perr error
				if p := mon.Guard(func() { pay, perr = srv.GeneratePayload() }); p != nil || perr != nil {
					report("error@GeneratePayload/shared-server", map[string]any{"err": fmt.Sprint(perr, p)})
					return
				}
				var ok bool
				var cerr error
				if p := mon.Guard(func() { ok, cerr = srv.CheckPayload(pay) }); p != nil {
					report("panic@"+p.Site+"/CheckPayload/shared-server", map[string]any{"panic": p.Value, "stack": mon.Trunc(p.Stack, 1200)})
					return
				} else if !ok {
					report("rejected-valid-payload@shared-server", map[string]any{"payload": pay, "err": fmt.Sprint(cerr), "iteration": it, "goroutine": g})
				}
				// independent judgement of what the server issued: MAC under the secret, as the reference computes it
				if raw, derr := hex.DecodeString(pay); derr == nil && len(raw) == 32 {
					var n8 [8]byte
					copy(n8[:], raw[:8])
					var t int64
					for _, b := range raw[8:16] {
						t = t<<8 | int64(b)
					}
					if rwallet.ServerPayload(secret, n8, t) != pay {
						report("issued-payload-not-under-the-secret@shared-server", map[string]any{"payload": pay, "iteration": it, "goroutine": g})
					}
				} else {
					report("issued-payload-malformed@shared-server", map[string]any{"payload": pay})
				}
				raw, _ := hex.DecodeString(pay)
				if len(raw) == 32 {
					raw[16+rng.Intn(16)] ^= 1 << uint(rng.Intn(8))
					bad := hex.EncodeToString(raw)
					if p := mon.Guard(func() { ok, _ = srv.CheckPayload(bad) }); p != nil {
						report("panic@"+p.Site+"/CheckPayload/shared-server", map[string]any{"panic": p.Value})
						return
					} else if ok {
						report("accepted-tampered-payload@shared-server", map[string]any{"payload": bad, "iteration": it, "goroutine": g})
					}
				}
				var n8 [8]byte
				copy(n8[:], rng.Bytes(8))
				foreign := rwallet.ServerPayload(secret+"x", n8, time.Now().Unix())
				if p := mon.Guard(func() { ok, _ = srv.CheckPayload(foreign) }); p == nil && ok {
					report("accepted-foreign-payload@shared-server", map[string]any{"payload": foreign, "iteration": it, "goroutine": g})
				}
				R.Eval(fmt.Sprintf("shared/payload/%d/%d", g, it))
				progress.Add(1)
				if it%4 != 0 {
					continue
				}
				ts := time.Now().Unix()
				rp := refProof(w, w.priv, domain, ts, pay, true)
				o := call(srv, rp, domain)
				switch {
				case o.panic != nil:
					report("panic@"+o.panic.Site+"/CheckProof/shared-server", map[string]any{"panic": o.panic.Value, "stack": mon.Trunc(o.panic.Stack, 1200)})
					return
				case !o.ok || o.err != nil:
					report("rejected-valid-proof@shared-server", witness("shared-server", rp, map[string]any{"err": fmt.Sprint(o.err), "version": spec.name, "iteration": it, "goroutine": g}))
				case string(o.key) != string(w.pub):
					report("wrong-key-returned@shared-server", witness("shared-server", rp, map[string]any{"returned_key": mon.Hex(o.key), "wallet_key": mon.Hex(w.pub)}))
				}
				bp := clone(rp)
				bp.Proof.Timestamp = ts + 1
				if o := call(srv, bp, domain); o.panic == nil && o.ok {
					report("accepted@shared-server/timestamp-changed", witness("shared-server", bp, map[string]any{"version": spec.name}))
				}
				R.Eval(fmt.Sprintf("shared/proof/%d/%d", g, it))
			}
		}(g)
	}
	// wait for the workers, watching progress: a server whose calls never return (a lock left behind by a
	// crashed call, say) must end as a verdict, not as a check that hangs. No iteration of any worker for
	// 30 s while a 10 ms sleeper shows that the machine itself is responsive = blocked.
	done := make(chan struct{})
	go func() { wg.Wait(); close(done) }()
	var worstLate atomic.Int64
	stopProbe := make(chan struct{})
	go func() {
		for {
			t0 := time.Now()
			select {
			case <-stopProbe:
				return
			case <-time.After(10 * time.Millisecond):
			}
			if late := int64(time.Since(t0) - 10*time.Millisecond); late > worstLate.Load() {
				worstLate.Store(late)
			}
		}
	}()
	last, lastChange := progress.Load(), time.Now()
wait:
	for {
		select {
		case <-done:
			break wait
		case <-time.After(time.Second):
		}
		if now := progress.Load(); now != last {
			last, lastChange = now, time.Now()
			worstLate.Store(0)
			continue
		}
		if time.Since(lastChange) > 30*time.Second {
			if time.Duration(worstLate.Load()) > time.Second {
				R.Inconclusive("shared-server workers made no progress for 30 s while the machine was stalling")
			} else {
				buf := make([]byte, 1<<20)
				buf = buf[:runtime.Stack(buf, true)]
				report("blocked@shared-server/calls-do-not-return", map[string]any{"iterations_done": last, "of": workers * iters, "goroutines": mon.Trunc(onlyTongoStacks(string(buf)), 3000)})
			}
			break wait
		}
	}
	close(stopProbe)
	R.Count("shared_server_payloads", progress.Load())
	sigs := make([]string, 0, len(first))
	for sg := range first {
		sigs = append(sigs, sg)
	}
	sort.Strings(sigs)
	for _, sg := range sigs {
		R.Violation(sg, first[sg])
	}
}

// onlyTongoStacks keeps the goroutines of a dump that have a tonconnect frame.
func onlyTongoStacks(dump string) string {
	var out []string
	for _, g := range strings.Split(dump, "\n\n") {
		if strings.Contains(g, "tongo/tonconnect.") {
			out = append(out, g)
		}
	}
	return strings.Join(out, "\n\n")
}

// keyless: see the call site.
func keyless(R *mon.Run) {
	sig := make([]byte, 64)
	sig[0] = 1 // encoding of the neutral element; S = 0
	sigB64 := base64.StdEncoding.EncodeToString(sig)
	for ver := twallet.Version(0); ver <= twallet.HighLoadV2R2+2; ver++ {
		var code *tboc.Cell
		if p := mon.Guard(func() { code = twallet.GetCodeByVer(ver) }); p != nil || code == nil {
			continue
		}
		rng := R.Rng("keyless", int(ver))
		data := tboc.NewCell()
		data.WriteBytes(rng.Bytes(rng.Range(40, 100)))
		si := tlb.StateInit{
			Code: tlb.Maybe[tlb.Ref[tboc.Cell]]{Exists: true, Value: tlb.Ref[tboc.Cell]{Value: *code}},
			Data: tlb.Maybe[tlb.Ref[tboc.Cell]]{Exists: true, Value: tlb.Ref[tboc.Cell]{Value: *data}},
		}
		sc := tboc.NewCell()
		if err := tlb.Marshal(sc, si); err != nil {
			continue
		}
		h, err := sc.Hash()
		if err != nil {
			continue
		}
		siB64, err := sc.ToBocBase64()
		if err != nil {
			continue
		}
		srv, err := tonconnect.NewTonConnect(&executor{}, "keyless-secret")
		if err != nil {
			R.HarnessError("NewTonConnect: %v", err)
			return
		}
		pay, _ := srv.GeneratePayload()
		now := time.Now().Unix()
		accepted := 0
		var acceptedKey string
		for k := int64(0); k < 48; k++ {
			p := &tonconnect.Proof{Address: fmt.Sprintf("0:%x", h), Proof: tonconnect.ProofData{Timestamp: now - k, Domain: "example.com", Signature: sigB64, Payload: pay, StateInit: siB64}}
			var ok bool
			var key ed25519.PublicKey
			if pn := mon.Guard(func() {
				ok, key, _ = srv.CheckProof(context.Background(), p, srv.CheckPayload, tonconnect.StaticDomain("example.com"))
			}); pn != nil {
				R.Violation("panic@"+pn.Site+"/CheckProof(keyless proof)", map[string]any{"version": fmt.Sprint(ver), "panic": pn.Value})
				break
			}
			R.Eval(fmt.Sprintf("keyless/%d/%d", ver, k))
			if ok {
				accepted++
				acceptedKey = hex.EncodeToString(key)
			}
		}
		R.Seen("keyless_versions", fmt.Sprint(ver))
		if accepted > 0 {
			R.Violation("accepted@proof-nobody-signed/code-of-a-published-wallet-with-junk-data", map[string]any{"wallet_version": fmt.Sprint(ver), "accepted_of_48_timestamps": accepted,
				"returned_key": acceptedKey, "state_init": siB64, "signature": "R = neutral element, S = 0"})
		}
	}
}
