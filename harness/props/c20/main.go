// C20 — JSON forms of chain values parse back to the same value.
// JSON round-trip monitor with semantic equality + malformed-document crash
// monitor. See DESIGN.md §5 C20.
package main

import (
	"encoding/json"
	"fmt"
	"os"
	"reflect"
	"sort"
	"strings"
	"sync"

	"github.com/tonkeeper/tongo/abi"
	"github.com/tonkeeper/tongo/boc"
	"github.com/tonkeeper/tongo/tl"
	"github.com/tonkeeper/tongo/tlb"
	"github.com/tonkeeper/tongo/ton"

	"verifharness/mon"
	"verifharness/reg"
)

var R *mon.Run

var (
	tMarshaler   = reflect.TypeOf((*json.Marshaler)(nil)).Elem()
	tUnmarshaler = reflect.TypeOf((*json.Unmarshaler)(nil)).Elem()
)

func hasBoth(t reflect.Type) bool {
	pt := reflect.PointerTo(t)
	return (t.Implements(tMarshaler) || pt.Implements(tMarshaler)) && pt.Implements(tUnmarshaler)
}

// ambiguousAddrVar: a variable-length address whose text is identical to a
// standard one (256 bits, workchain within int8, no anycast) — the stated exception.
func containsAmbiguousAddrVar(v reflect.Value, depth int) bool {
	if depth > 12 {
		return false
	}
	switch v.Kind() {
	case reflect.Struct:
		if v.Type() == reflect.TypeOf(tlb.MsgAddress{}) {
			a := v.Interface().(tlb.MsgAddress)
			if a.SumType == "AddrVar" && a.AddrVar != nil && a.AddrVar.AddrLen == 256 &&
				a.AddrVar.WorkchainId >= -128 && a.AddrVar.WorkchainId <= 127 {
				return true
			}
			return false
		}
		for i := 0; i < v.NumField(); i++ {
			if v.Type().Field(i).IsExported() && containsAmbiguousAddrVar(v.Field(i), depth+1) {
				return true
			}
		}
	case reflect.Pointer, reflect.Interface:
		if !v.IsNil() {
			return containsAmbiguousAddrVar(v.Elem(), depth+1)
		}
	case reflect.Slice, reflect.Array:
		for i := 0; i < v.Len() && i < 8; i++ {
			if containsAmbiguousAddrVar(v.Index(i), depth+1) {
				return true
			}
		}
	}
	return false
}

type stat struct{ ok, marshalErr int }

func oneValue(e reg.Entry, k int, st *stat) {
	rng := R.Rng("json/"+e.Name, k)
	g := reg.NewGen(rng)
	g.TopArm = k
	if k < 9 {
		g.Bound = k
	}
	var v reflect.Value
	if p := mon.Guard(func() { v = g.New(e.Type) }); p != nil {
		R.HarnessError("generator panicked for %s: %s", e.Name, p.Value)
		return
	}
	// envelopes (opcode + typed body): the body must itself be a type that JSON can carry both ways
	if val := fieldByName(v, "Value"); val.IsValid() && val.Kind() == reflect.Interface && !val.IsNil() {
		if bt := val.Elem().Type(); bt.Kind() == reflect.Struct && !reg.JSONCapable(bt) {
			R.Eval("")
			R.Count("skipped_envelope_body_without_json_decoder", 1)
			return
		}
	}
	if containsAmbiguousAddrVar(v, 0) {
		R.Eval("")
		R.Count("skipped_ambiguous_addr_var", 1)
		return
	}
	wit := func() map[string]any {
		return map[string]any{"type": e.Name, "case": k, "constructors": g.Trace, "value": mon.Trunc(fmt.Sprintf("%+v", v.Interface()), 1200)}
	}
	var doc []byte
	var err error
	if p := mon.Guard(func() { doc, err = json.Marshal(v.Addr().Interface()) }); p != nil {
		w := wit()
		w["panic"], w["stack"] = p.Value, mon.Trunc(p.Stack, 1200)
		R.Violation("panic@MarshalJSON/"+e.Name, w)
		return
	}
	if err != nil {
		// the statement promises JSON for any value of the domain
		w := wit()
		w["err"] = err.Error()
		st.marshalErr++
		R.Violation("marshal-error@"+e.Name, w)
		return
	}
	if !json.Valid(doc) {
		w := wit()
		w["doc"] = mon.Trunc(string(doc), 600)
		R.Violation("invalid-json@"+e.Name, w)
		return
	}
	check := func(form string, document []byte, extract func(reflect.Value) reflect.Value, holder reflect.Value) {
		var uerr error
		if p := mon.Guard(func() { uerr = json.Unmarshal(document, holder.Interface()) }); p != nil {
			w := wit()
			w["panic"], w["doc"], w["form"] = p.Value, mon.Trunc(string(document), 600), form
			R.Violation("panic@UnmarshalJSON/"+e.Name, w)
			return
		}
		R.Eval(fmt.Sprintf("%s/%s/%d/%s", e.Name, form, k, strings.Join(g.Trace, ",")))
		if uerr != nil {
			w := wit()
			w["err"], w["doc"], w["form"] = uerr.Error(), mon.Trunc(string(document), 600), form
			R.Violation("parse-back-failed@"+e.Name, w)
			return
		}
		got := extract(holder.Elem())
		if d := reg.Equal(v, got, reg.EqOpts{}); d != "" {
			w := wit()
			w["diff"], w["doc"], w["form"] = d, mon.Trunc(string(document), 600), form
			w["parsed"] = mon.Trunc(fmt.Sprintf("%+v", got.Interface()), 800)
			R.Violation("roundtrip-mismatch@"+e.Name, w)
		}
	}
	check("bare", doc, func(h reflect.Value) reflect.Value { return h }, reflect.New(e.Type))
	st.ok++
	if k%3 == 0 {
		// as a struct field, a slice element and a map value (quoting / escaping / separators)
		ft := reflect.StructOf([]reflect.StructField{{Name: "A", Type: reflect.TypeOf(0)}, {Name: "V", Type: e.Type}, {Name: "Z", Type: reflect.TypeOf("")}})
		sv := reflect.New(ft).Elem()
		sv.Field(0).SetInt(7)
		sv.Field(1).Set(v)
		sv.Field(2).SetString("z\"}")
		if d2, err := json.Marshal(sv.Addr().Interface()); err == nil && json.Valid(d2) {
			check("field", d2, func(h reflect.Value) reflect.Value { return h.Field(1) }, reflect.New(ft))
		} else {
			w := wit()
			w["err"] = fmt.Sprint(err)
			R.Violation("invalid-json@"+e.Name+"/as-field", w)
		}
		sl := reflect.MakeSlice(reflect.SliceOf(e.Type), 2, 2)
		sl.Index(1).Set(v)
		ps := reflect.New(sl.Type())
		ps.Elem().Set(sl)
		if d2, err := json.Marshal(ps.Interface()); err == nil && json.Valid(d2) {
			check("slice", d2, func(h reflect.Value) reflect.Value { return h.Index(1) }, reflect.New(sl.Type()))
		}
	}
	if k < 6 {
		malformed(e, doc)
	}
}

func malformed(e reg.Entry, doc []byte) {
	try := func(kind string, d []byte) {
		holder := reflect.New(e.Type)
		if p := mon.Guard(func() { _ = json.Unmarshal(d, holder.Interface()) }); p != nil {
			R.Violation("panic@UnmarshalJSON(malformed)/"+e.Name, map[string]any{"type": e.Name, "kind": kind, "doc": mon.Trunc(string(d), 800), "panic": p.Value, "stack": mon.Trunc(p.Stack, 1200)})
		}
		// the method called directly (json.Unmarshal pre-validates syntax; callers also use the method)
		if u, ok := holder.Interface().(json.Unmarshaler); ok {
			if p := mon.Guard(func() { _ = u.UnmarshalJSON(d) }); p != nil {
				R.Violation("panic@UnmarshalJSON(direct,malformed)/"+e.Name, map[string]any{"type": e.Name, "kind": kind, "doc": mon.Trunc(string(d), 800), "panic": p.Value, "stack": mon.Trunc(p.Stack, 1200)})
			}
		}
		R.Eval("")
		R.Count("malformed_docs", 1)
	}
	step := 1
	if len(doc) > 300 {
		step = len(doc) / 300
	}
	for i := 0; i < len(doc); i += step {
		try("truncated", doc[:i])
	}
	for _, s := range []string{`123`, `-1`, `"abc"`, `""`, `null`, `{}`, `[]`, `true`, `1e400`, `"-1"`, `"0x"`, `"0xzz"`, `18446744073709551616`,
		`"18446744073709551616"`, `-9223372036854775809`, `{"SumType":"nope"}`, `{"SumType":1}`, `[1,2,3]`, `"` + strings.Repeat("f", 2001) + `"`,
		`"b5ee9c72"`, `"b5ee9c7201"`, `":"`, `"0:"`, `"0:zz"`, `"-1:00"`, `"_"`, `"8_"`, `"x_"`, `1.5`, `"1.5"`, ` `, ``,
		`"0:00:Anycast("`, `"0:00:Anycast()"`, `"0:00:Anycast(1"`, `"0:00:Anycast(1,"`, `"0:00:Anycast(1,2"`, `"0:00:)"`, `"0:00:Anycast"`, `"0:00:A"`, `"::"`, `":::"`, `"0:_"`, `":_"`, `"0:_:Anycast(1,1)"`, `"0::Anycast(1,1)"`,
		`"0:` + strings.Repeat("0", 64) + `:Anycast("`, `"0:` + strings.Repeat("0", 64) + `:)"`, `"0x"`, `"0x100000000"`} {
		try("confusion", []byte(s))
	}
	rng := mon.NewRng(mon.Hash64(e.Name) ^ uint64(len(doc)))
	for i := 0; i < 40 && len(doc) > 0; i++ {
		d := append([]byte(nil), doc...)
		for j := 0; j < rng.Range(1, 3); j++ {
			d[rng.Intn(len(d))] = byte(rng.Range(32, 126))
		}
		try("edited", d)
	}
}

func main() {
	tier := "quick"
	if len(os.Args) > 1 {
		tier = os.Args[1]
	}
	R = mon.Start("C20", tier)
	R.Rule = "registry = every exported type of tlb/wallet/abi (generated from the sources) plus boc.Cell, boc.BitString, tlb.Magic, ton.Bits256, ton.AccountID, tl.Int256, abi.InMsgBody, abi.ExtOutMsgBody for which both json.Marshaler and json.Unmarshaler are implemented (decided by reflection at run time); values from the C03 domain rules (integer boundaries first, every constructor, then random), bare and wrapped in a struct field and a slice; each document must be valid JSON and parse back to a semantically equal value; truncations, type confusions and random edits of each document must not panic (through json.Unmarshal and through the method called directly); additional directed classes: magic tags with a value (compared as numbers), bit strings of every length 0..1023, every length 0..511 of external/variable addresses, the unknown-body arm of InMsgBody/ExtOutMsgBody/JettonPayload/NFTPayload and every known body type once, exotic cells (library, pruned under a Merkle proof, Merkle update) as Cell/Any/Maybe[Ref[Cell]] compared structurally with the reference tree, addresses with an anycast part and every cut of their text; one shared bit string / external / variable address marshalled by 8 goroutines at once (fresh value each round): every text must parse back to the value; documents that are no value's JSON form (numbers beyond the width, hex of another length, two-root bags, non-numeric anycast) must be refused or, if accepted, be written back unchanged; non-trivial = a value whose JSON was parsed back and compared; distinct = distinct (type, form, case)"
	R.Assume("a variable-length address with 256 bits and an int8 workchain (text identical to a standard address) is skipped, as the statement says")
	R.Assume("semantic equality as in C03 (harness/reg/eq.go); magic tags, swept bit strings and exotic cells are additionally compared by value / bit by bit / with the reference tree")
	R.Assume("a document that denotes no value of the type but is accepted and written back as the same document (big-integer types keep any number) is counted, not flagged")
	entries := reg.Types()
	extra := func(name string, t reflect.Type) { entries = append(entries, reg.Entry{Name: name, Type: t}) }
	extra("boc.BitString", reflect.TypeOf(boc.BitString{}))
	extra("tlb.Magic", reflect.TypeOf(tlb.Magic(0)))
	extra("ton.Bits256", reflect.TypeOf(ton.Bits256{}))
	extra("ton.AccountID", reflect.TypeOf(ton.AccountID{}))
	extra("tl.Int256", reflect.TypeOf(tl.Int256{}))
	extra("abi.ExtOutMsgBody", reflect.TypeOf(abi.ExtOutMsgBody{}))
	var sel []reg.Entry
	seen := map[reflect.Type]bool{}
	for _, e := range entries {
		if seen[e.Type] || !hasBoth(e.Type) {
			continue
		}
		seen[e.Type] = true
		sel = append(sel, e)
	}
	sort.Slice(sel, func(i, j int) bool { return sel[i].Name < sel[j].Name })
	R.Extra("types_with_both_json_methods", len(sel))
	n := R.N(40, 12000)
	stats := make([]stat, len(sel))
	var wg sync.WaitGroup
	sem := make(chan struct{}, 16)
	for i, e := range sel {
		R.Seen("types", e.Name)
		wg.Add(1)
		sem <- struct{}{}
		go func(i int, e reg.Entry) {
			defer wg.Done()
			defer func() { <-sem }()
			for k := 0; k < n; k++ {
				oneValue(e, k, &stats[i])
			}
		}(i, e)
	}
	wg.Wait()
	// every bit length of the variable-length and external address kinds
	for i, a := range reg.AddrSweep(R.Rng("addr-sweep", 0)) {
		a := a
		v := reflect.ValueOf(&a).Elem()
		if containsAmbiguousAddrVar(v, 0) {
			continue
		}
		doc, err := json.Marshal(a)
		R.Eval(fmt.Sprintf("addr-sweep/%d", i))
		if err != nil || !json.Valid(doc) {
			R.Violation("invalid-json@tlb.MsgAddress/sweep", map[string]any{"value": fmt.Sprintf("%+v", a), "err": fmt.Sprint(err)})
			continue
		}
		var back tlb.MsgAddress
		var uerr error
		if p := mon.Guard(func() { uerr = json.Unmarshal(doc, &back) }); p != nil {
			R.Violation("panic@UnmarshalJSON/tlb.MsgAddress", map[string]any{"doc": string(doc), "panic": p.Value})
			continue
		}
		kind := string(a.SumType)
		if uerr != nil {
			R.Violation("parse-back-failed@tlb.MsgAddress/"+kind+"/length-sweep", map[string]any{"doc": string(doc), "err": uerr.Error(), "bits": addrBits(a)})
			continue
		}
		if d := reg.Equal(v, reflect.ValueOf(&back).Elem(), reg.EqOpts{}); d != "" {
			R.Violation("roundtrip-mismatch@tlb.MsgAddress/"+kind+"/length-sweep", map[string]any{"doc": string(doc), "diff": d, "bits": addrBits(a)})
		}
	}
	extraSections(sel)
	R.Sample(map[string]any{"type": "tlb.Int257", "example": "-2^256 -> \"-1157920892...\" -> parsed back equal; also as struct field and slice element"})
	os.Exit(R.Finish())
}

func fieldByName(v reflect.Value, name string) reflect.Value {
	if v.Kind() != reflect.Struct {
		return reflect.Value{}
	}
	return v.FieldByName(name)
}

func addrBits(a tlb.MsgAddress) int {
	switch a.SumType {
	case "AddrExtern":
		return a.AddrExtern.BitsAvailableForRead()
	case "AddrVar":
		return int(a.AddrVar.AddrLen)
	}
	return 256
}
