// C20, additional input classes (closing the coverage gaps of the audit):
// magic tags with a value, bit strings up to 1023 bits, the unknown-body arm
// of every message-body envelope, every known body type once, exotic cells,
// malformed anycast suffixes, and documents that are no value's JSON form
// (out-of-width numbers, wrong-length hex, multi-root bags): those must be
// refused or, if accepted, must denote what was written.
package main

import (
	"encoding/hex"
	"encoding/json"
	"fmt"
	"math/big"
	"reflect"
	"regexp"
	"sort"
	"strconv"
	"strings"
	"sync"

	"github.com/tonkeeper/tongo/abi"
	"github.com/tonkeeper/tongo/boc"
	"github.com/tonkeeper/tongo/tlb"

	"verifharness/bridge"
	"verifharness/gen"
	"verifharness/mon"
	rboc "verifharness/ref/boc"
	"verifharness/ref/cell"
	"verifharness/reg"
)

// roundTrip marshals the addressable value v, demands valid JSON, parses it
// back bare, as a struct field and as a slice element and compares with eq
// ("" = equal). class names the input class in signatures and fingerprints.
func roundTrip(typeName, class, fp string, v reflect.Value, eq func(a, b reflect.Value) string) bool {
	t := v.Type()
	wit := func() map[string]any {
		return map[string]any{"type": typeName, "class": class, "case": fp, "value": mon.Trunc(fmt.Sprintf("%+v", v.Interface()), 1000)}
	}
	var doc []byte
	var err error
	if p := mon.Guard(func() { doc, err = json.Marshal(v.Addr().Interface()) }); p != nil {
		w := wit()
		w["panic"], w["stack"] = p.Value, mon.Trunc(p.Stack, 1200)
		R.Violation("panic@MarshalJSON/"+typeName+"/"+class, w)
		return false
	}
	if err != nil {
		w := wit()
		w["err"] = err.Error()
		R.Violation("marshal-error@"+typeName+"/"+class, w)
		return false
	}
	if !json.Valid(doc) {
		w := wit()
		w["doc"] = mon.Trunc(string(doc), 600)
		R.Violation("invalid-json@"+typeName+"/"+class, w)
		return false
	}
	ok := true
	check := func(form string, document []byte, holder reflect.Value, extract func(reflect.Value) reflect.Value) {
		var uerr error
		if p := mon.Guard(func() { uerr = json.Unmarshal(document, holder.Interface()) }); p != nil {
			w := wit()
			w["panic"], w["doc"], w["form"] = p.Value, mon.Trunc(string(document), 600), form
			R.Violation("panic@UnmarshalJSON/"+typeName+"/"+class, w)
			ok = false
			return
		}
		R.Eval(fmt.Sprintf("%s/%s/%s/%s", typeName, class, form, fp))
		if uerr != nil {
			w := wit()
			w["err"], w["doc"], w["form"] = uerr.Error(), mon.Trunc(string(document), 600), form
			R.Violation("parse-back-failed@"+typeName+"/"+class, w)
			ok = false
			return
		}
		got := extract(holder.Elem())
		if d := eq(v, got); d != "" {
			w := wit()
			w["diff"], w["doc"], w["form"] = d, mon.Trunc(string(document), 600), form
			w["parsed"] = mon.Trunc(fmt.Sprintf("%+v", got.Interface()), 800)
			R.Violation("roundtrip-mismatch@"+typeName+"/"+class, w)
			ok = false
		}
	}
	check("bare", doc, reflect.New(t), func(h reflect.Value) reflect.Value { return h })
	ft := reflect.StructOf([]reflect.StructField{{Name: "A", Type: reflect.TypeOf(0)}, {Name: "V", Type: t}, {Name: "Z", Type: reflect.TypeOf("")}})
	sv := reflect.New(ft).Elem()
	sv.Field(0).SetInt(7)
	sv.Field(1).Set(v)
	sv.Field(2).SetString("z\"}")
	if d2, err := json.Marshal(sv.Addr().Interface()); err == nil && json.Valid(d2) {
		check("field", d2, reflect.New(ft), func(h reflect.Value) reflect.Value { return h.Field(1) })
	} else {
		w := wit()
		w["err"] = fmt.Sprint(err)
		R.Violation("invalid-json@"+typeName+"/"+class+"/as-field", w)
		ok = false
	}
	sl := reflect.MakeSlice(reflect.SliceOf(t), 2, 2)
	sl.Index(1).Set(v)
	ps := reflect.New(sl.Type())
	ps.Elem().Set(sl)
	if d2, err := json.Marshal(ps.Interface()); err == nil && json.Valid(d2) {
		check("slice", d2, reflect.New(sl.Type()), func(h reflect.Value) reflect.Value { return h.Index(1) })
	}
	return ok
}

func regEq(a, b reflect.Value) string { return reg.Equal(a, b, reg.EqOpts{}) }

// ---- magic tags: a value, compared as a number ----

func magicTagsOfLibrary() []uint32 {
	// the tags written in the struct definitions of the registry types
	seen := map[uint32]bool{}
	var walk func(t reflect.Type, depth int)
	visited := map[reflect.Type]bool{}
	walk = func(t reflect.Type, depth int) {
		if depth > 6 || visited[t] {
			return
		}
		visited[t] = true
		switch t.Kind() {
		case reflect.Struct:
			for i := 0; i < t.NumField(); i++ {
				f := t.Field(i)
				if f.Type == reflect.TypeOf(tlb.Magic(0)) {
					tag := f.Tag.Get("tlb")
					if j := strings.IndexAny(tag, "#$"); j >= 0 && len(tag) > j+1 && tag[j+1] != '_' {
						base := 16
						if tag[j] == '$' {
							base = 2
						}
						if x, err := strconv.ParseUint(tag[j+1:], base, 32); err == nil {
							seen[uint32(x)] = true
						}
					}
					continue
				}
				walk(f.Type, depth+1)
			}
		case reflect.Pointer, reflect.Slice, reflect.Array:
			walk(t.Elem(), depth+1)
		}
	}
	for _, e := range reg.Types() {
		walk(e.Type, 0)
	}
	out := make([]uint32, 0, len(seen))
	for x := range seen {
		out = append(out, x)
	}
	sort.Slice(out, func(i, j int) bool { return out[i] < out[j] })
	return out
}

func magicSection() {
	vals := []uint32{0, 1, 9, 0xa, 0xf, 0x10, 0x72, 0xff, 0x100, 0x0ec3c86d, 0x43685374, 0x7fffffff, 0x80000000, 0x9023afe2, 0xfffffffe, 0xffffffff, 114, 100000}
	lib := magicTagsOfLibrary()
	R.Extra("magic_tags_found_in_struct_definitions", len(lib))
	vals = append(vals, lib...)
	rng := R.Rng("magic", 0)
	for i := 0; i < R.N(200, 20000); i++ {
		vals = append(vals, uint32(rng.Uint64())>>uint(rng.Intn(32)))
	}
	numEq := func(a, b reflect.Value) string {
		if uint32(a.Uint()) != uint32(b.Uint()) {
			return fmt.Sprintf("magic 0x%x read back as 0x%x", a.Uint(), b.Uint())
		}
		return ""
	}
	for _, x := range vals {
		v := reflect.New(reflect.TypeOf(tlb.Magic(0))).Elem()
		v.SetUint(uint64(x))
		roundTrip("tlb.Magic", "value", fmt.Sprintf("%x", x), v, numEq)
		R.Count("magic_values", 1)
	}
}

// ---- bit strings of every length up to a full cell ----

func bitStringSweep() {
	rng := R.Rng("bitstring-sweep", 0)
	eBS := reg.Entry{Name: "boc.BitString", Type: reflect.TypeOf(boc.BitString{})}
	for n := 0; n <= 1023; n++ {
		reps := 1
		if n >= 1016 || n%256 == 0 || R.Thorough() {
			reps = 3
		}
		for rep := 0; rep < reps; rep++ {
			bs := boc.NewBitString(n)
			bitsv := rng.Bits(n)
			switch rep {
			case 1:
				for i := range bitsv {
					bitsv[i] = true
				}
			case 2:
				for i := range bitsv {
					bitsv[i] = false
				}
			}
			for _, b := range bitsv {
				if err := bs.WriteBit(b); err != nil {
					R.HarnessError("bit string sweep: %v", err)
					return
				}
			}
			v := reflect.New(eBS.Type).Elem()
			v.Set(reflect.ValueOf(bs))
			roundTrip("boc.BitString", "length-sweep", fmt.Sprintf("%d/%d", n, rep), v, func(a, b reflect.Value) string {
				if d := regEq(a, b); d != "" {
					return d
				}
				// bit by bit against what was written (the harness comparison reads tongo's buffer)
				got := bridge.Bits(b.Interface().(boc.BitString))
				if len(got) != len(bitsv) {
					return fmt.Sprintf("%d bits read back, %d written", len(got), len(bitsv))
				}
				for i := range got {
					if got[i] != bitsv[i] {
						return fmt.Sprintf("bit %d differs", i)
					}
				}
				return ""
			})
			R.Count("bitstring_lengths", 1)
			if rep == 0 && (n == 1023 || n == 1021 || n == 512 || n == 1020) {
				if doc, err := json.Marshal(bs); err == nil {
					malformed(eBS, doc)
				}
			}
		}
	}
}

// ---- unknown-body arm of every envelope, and every known body type once ----

func unknownCell(rng *mon.Rng, g *reg.Gen, known func(uint32) bool, short bool) (*boc.Cell, *uint32) {
	c := boc.NewCell()
	if short {
		// fewer than 32 bits: no opcode at all
		for _, b := range rng.Bits(rng.Intn(32)) {
			_ = c.WriteBit(b)
		}
		return c, nil
	}
	var code uint32
	for {
		code = uint32(rng.Uint64())
		if rng.Chance(1, 4) {
			code |= 0x80000000
		}
		if !known(code) {
			break
		}
	}
	_ = c.WriteUint(uint64(code), 32)
	for _, b := range rng.Bits(rng.Intn(300)) {
		_ = c.WriteBit(b)
	}
	for i := 0; i < rng.Intn(3); i++ {
		_ = c.AddRef(g.SmallCell(1))
	}
	return c, &code
}

func envelopeSection() {
	inCodes := map[uint32]bool{}
	for _, c := range reg.MsgOpCodes {
		inCodes[c] = true
	}
	jCodes := map[uint32]bool{}
	for _, c := range abi.JettonOpCodes {
		jCodes[uint32(c)] = true
	}
	nCodes := map[uint32]bool{}
	for _, c := range abi.NFTOpCodes {
		nCodes[uint32(c)] = true
	}
	n := R.N(60, 3000)
	for i := 0; i < n; i++ {
		rng := R.Rng("unknown-arm", i)
		g := reg.NewGen(rng)
		fp := fmt.Sprint(i)
		// the representation the TL-B decoders give to a body nobody registered: the whole body
		// cell (opcode included) plus the opcode; jetton / NFT payloads shorter than 32 bits carry no opcode
		{
			c, code := unknownCell(rng, g, func(x uint32) bool { return inCodes[x] || x == 0 }, false)
			b := abi.ExtOutMsgBody{SumType: abi.UnknownMsgOp, OpCode: code, Value: c}
			roundTrip("abi.ExtOutMsgBody", "unknown-body", fp, reflect.ValueOf(&b).Elem(), regEq)
		}
		{
			c, code := unknownCell(rng, g, func(x uint32) bool { return inCodes[x] || x == 0 }, false)
			b := abi.InMsgBody{SumType: abi.UnknownMsgOp, OpCode: code, Value: c}
			roundTrip("abi.InMsgBody", "unknown-body", fp, reflect.ValueOf(&b).Elem(), regEq)
		}
		{
			c, code := unknownCell(rng, g, func(x uint32) bool { return jCodes[x] }, i%4 == 3)
			b := abi.JettonPayload{SumType: abi.UnknownJettonOp, OpCode: code, Value: c}
			roundTrip("abi.JettonPayload", "unknown-body", fp, reflect.ValueOf(&b).Elem(), regEq)
		}
		{
			c, code := unknownCell(rng, g, func(x uint32) bool { return nCodes[x] }, i%4 == 3)
			b := abi.NFTPayload{SumType: abi.UnknownNFTOp, OpCode: code, Value: c}
			roundTrip("abi.NFTPayload", "unknown-body", fp, reflect.ValueOf(&b).Elem(), regEq)
		}
		R.Count("unknown_body_envelopes", 4)
	}

	// every known body type once per round (the random envelope generator samples a few dozen of them)
	rounds := R.N(1, 40)
	type fam struct {
		name  string
		known map[string]any
		code  func(string) (uint32, bool)
		make  func(name string, code *uint32, val any) reflect.Value
	}
	fams := []fam{
		{"abi.InMsgBody", abi.KnownMsgInTypes, func(s string) (uint32, bool) { c, ok := reg.MsgOpCodes[s]; return c, ok },
			func(n string, c *uint32, v any) reflect.Value {
				b := abi.InMsgBody{SumType: n, OpCode: c, Value: v}
				return reflect.ValueOf(&b).Elem()
			}},
		{"abi.ExtOutMsgBody", abi.KnownMsgExtOutTypes, func(s string) (uint32, bool) { c, ok := reg.MsgOpCodes[s]; return c, ok },
			func(n string, c *uint32, v any) reflect.Value {
				b := abi.ExtOutMsgBody{SumType: n, OpCode: c, Value: v}
				return reflect.ValueOf(&b).Elem()
			}},
		{"abi.JettonPayload", abi.KnownJettonTypes, func(s string) (uint32, bool) { c, ok := abi.JettonOpCodes[s]; return uint32(c), ok },
			func(n string, c *uint32, v any) reflect.Value {
				b := abi.JettonPayload{SumType: n, OpCode: c, Value: v}
				return reflect.ValueOf(&b).Elem()
			}},
		{"abi.NFTPayload", abi.KnownNFTTypes, func(s string) (uint32, bool) { c, ok := abi.NFTOpCodes[s]; return uint32(c), ok },
			func(n string, c *uint32, v any) reflect.Value {
				b := abi.NFTPayload{SumType: n, OpCode: c, Value: v}
				return reflect.ValueOf(&b).Elem()
			}},
	}
	for _, f := range fams {
		names := make([]string, 0, len(f.known))
		for n := range f.known {
			names = append(names, n)
		}
		sort.Strings(names)
		for round := 0; round < rounds; round++ {
			for _, name := range names {
				code, ok := f.code(name)
				bt := reflect.TypeOf(f.known[name])
				if !ok || bt == nil {
					continue
				}
				if bt.Kind() == reflect.Struct && !reg.JSONCapable(bt) {
					R.Count("skipped_envelope_body_without_json_decoder", 1)
					continue
				}
				rng := R.Rng("known-body/"+f.name+"/"+name, round)
				g := reg.NewGen(rng)
				var val reflect.Value
				if p := mon.Guard(func() { val = g.New(bt) }); p != nil {
					R.HarnessError("generator panicked for %s: %s", bt, p.Value)
					return
				}
				c := code
				v := f.make(name, &c, val.Interface())
				if containsAmbiguousAddrVar(v, 0) {
					R.Count("skipped_ambiguous_addr_var", 1)
					continue
				}
				roundTrip(f.name, "known-body", name+"/"+fmt.Sprint(round), v, regEq)
				R.Seen("known_bodies", f.name+"."+name)
			}
		}
	}
}

// ---- exotic cells through the JSON form of cells ----

func exoticSection() {
	n := R.N(120, 4000)
	for i := 0; i < n; i++ {
		rng := R.Rng("exotic", i)
		var root *cell.Cell
		switch i % 4 {
		case 0:
			var h cell.Hash
			copy(h[:], rng.Bytes(32))
			root = cell.NewLibrary(h)
		case 1:
			// a Merkle proof whose body has one pruned child
			sub := gen.RandomDag(rng, gen.DagOpts{Nodes: 4, SmallBits: true})
			keep := gen.Leaf(rng, true)
			body := cell.New(rng.Bits(rng.Intn(64)), false, cell.NewPruned(sub, 1), keep)
			root = cell.NewMerkleProof(body)
		default:
			root = gen.RandomDag(rng, gen.DagOpts{Nodes: rng.Range(2, 10), Exotic: true, SmallBits: true})
		}
		if root.Err() != nil {
			R.Eval("")
			continue
		}
		hasExotic := false
		cell.Walk(root, func(c *cell.Cell) {
			if c.Exotic {
				hasExotic = true
			}
		})
		ts, _, err := bridge.ToTongoParsed([]*cell.Cell{root}, rboc.Options{CRC: rng.Bool()})
		if err != nil || len(ts) != 1 {
			// whether tongo reads this bag is C01/C07's business
			R.Eval("")
			R.Count("exotic_trees_not_delivered", 1)
			continue
		}
		if hasExotic {
			R.Count("cells_with_exotic_nodes", 1)
		}
		against := func(a, b reflect.Value) string {
			if d := regEq(a, b); d != "" {
				return d
			}
			var back *boc.Cell
			switch x := b.Addr().Interface().(type) {
			case *boc.Cell:
				back = x
			case *tlb.Any:
				back = (*boc.Cell)(x)
			case *tlb.Maybe[tlb.Ref[boc.Cell]]:
				back = &x.Value.Value
			}
			if back == nil {
				return ""
			}
			if d := bridge.Diff(back, root); d != "" {
				return "structure differs from the reference tree: " + d
			}
			return ""
		}
		fp := fmt.Sprintf("%d/%d", i%4, i)
		switch (i / 4) % 3 {
		case 0:
			c := *ts[0]
			roundTrip("boc.Cell", "exotic", fp, reflect.ValueOf(&c).Elem(), against)
		case 1:
			a := tlb.Any(*ts[0])
			roundTrip("tlb.Any", "exotic", fp, reflect.ValueOf(&a).Elem(), against)
		case 2:
			m := tlb.Maybe[tlb.Ref[boc.Cell]]{Exists: true, Value: tlb.Ref[boc.Cell]{Value: *ts[0]}}
			roundTrip("tlb.Maybe[Ref[Cell]]", "exotic", fp, reflect.ValueOf(&m).Elem(), against)
		}
	}
}

// ---- addresses with an anycast part: truncations and edits of their text ----

func anycastMalformedSection() {
	e := reg.Entry{Name: "tlb.MsgAddress", Type: reflect.TypeOf(tlb.MsgAddress{})}
	n := R.N(6, 200)
	for i := 0; i < n; i++ {
		rng := R.Rng("anycast-malformed", i)
		d := uint32(rng.Range(1, 30))
		ac := tlb.Maybe[tlb.Anycast]{Exists: true, Value: tlb.Anycast{Depth: d, RewritePfx: uint32(rng.Uint64() & (uint64(1)<<d - 1))}}
		var a tlb.MsgAddress
		if i%2 == 0 {
			a.SumType = "AddrStd"
			a.AddrStd.Anycast = ac
			a.AddrStd.WorkchainId = int8(rng.Uint64())
			copy(a.AddrStd.Address[:], rng.Bytes(32))
		} else {
			nb := mon.Pick(rng, []int{0, 1, 7, 8, 250, 257, 511, rng.Intn(512)})
			bs := boc.NewBitString(nb)
			for _, b := range rng.Bits(nb) {
				_ = bs.WriteBit(b)
			}
			a.SumType = "AddrVar"
			a.AddrVar = &struct {
				Anycast     tlb.Maybe[tlb.Anycast]
				AddrLen     tlb.Uint9
				WorkchainId int32
				Address     boc.BitString
			}{Anycast: ac, AddrLen: tlb.Uint9(nb), WorkchainId: 1000 + int32(rng.Intn(100000)), Address: bs}
		}
		v := reflect.ValueOf(&a).Elem()
		if !roundTrip("tlb.MsgAddress", "with-anycast", fmt.Sprint(i), v, regEq) {
			continue
		}
		doc, err := json.Marshal(a)
		if err != nil {
			continue
		}
		malformed(e, doc)
		// every cut inside the anycast part, with the closing quote restored (syntactically valid JSON)
		s := string(doc)
		if k := strings.Index(s, ":Anycast("); k > 0 {
			for cut := k; cut < len(s)-1; cut++ {
				tryNoPanic(e, "anycast-cut", []byte(s[:cut]+`"`))
			}
		}
	}
}

func tryNoPanic(e reg.Entry, kind string, d []byte) {
	holder := reflect.New(e.Type)
	if p := mon.Guard(func() { _ = json.Unmarshal(d, holder.Interface()) }); p != nil {
		R.Violation("panic@UnmarshalJSON(malformed)/"+e.Name, map[string]any{"type": e.Name, "kind": kind, "doc": mon.Trunc(string(d), 800), "panic": p.Value, "stack": mon.Trunc(p.Stack, 1200)})
	}
	R.Eval("")
	R.Count("malformed_docs", 1)
}

// ---- documents that are the JSON form of no value of the type ----
//
// The statement asks for an error. Where the library cannot even hold what the document says
// (a number beyond the width, hex of another length, two roots for one cell) a silent nil error
// means the value was altered; that, and only that, is reported: a document that is accepted and
// written back as the same document is counted, not flagged (the big-integer types keep whatever
// number they are given).

var reTlbInt = regexp.MustCompile(`^tlb\.(Uint|Int)(\d+)$`)
var reVarUint = regexp.MustCompile(`^tlb\.VarUInteger(\d+)$`)
var reDigits = regexp.MustCompile(`\d+`)

type oddDoc struct {
	class string
	doc   string
	// same reports whether the document written back by the library says the same as doc
	same func(doc, back string) bool
}

func numSame(doc, back string) bool {
	a, ok1 := new(big.Int).SetString(strings.Trim(doc, `"`), 0)
	b, ok2 := new(big.Int).SetString(strings.Trim(back, `"`), 0)
	return ok1 && ok2 && a.Cmp(b) == 0
}

func textSame(doc, back string) bool {
	return strings.EqualFold(strings.Trim(doc, `"`), strings.Trim(back, `"`))
}

func numDocs(class string, x *big.Int) []oddDoc {
	return []oddDoc{{class, x.String(), numSame}, {class + "/quoted", `"` + x.String() + `"`, numSame}}
}

func pow2(n int) *big.Int { return new(big.Int).Lsh(big.NewInt(1), uint(n)) }

func oddDocsFor(e reg.Entry, rng *mon.Rng) []oddDoc {
	var out []oddDoc
	t := e.Type
	one := big.NewInt(1)
	neg := func(x *big.Int) *big.Int { return new(big.Int).Neg(x) }
	switch {
	case reTlbInt.MatchString(e.Name):
		m := reTlbInt.FindStringSubmatch(e.Name)
		n, _ := strconv.Atoi(m[2])
		if m[1] == "Uint" {
			out = append(out, numDocs("above-width", pow2(n))...)
			out = append(out, numDocs("above-width", new(big.Int).Add(pow2(n), big.NewInt(int64(1+rng.Intn(200)))))...)
			out = append(out, numDocs("negative-for-unsigned", big.NewInt(-1))...)
			if n < 64 {
				out = append(out, numDocs("above-width", new(big.Int).Sub(pow2(64), one))...)
			}
		} else {
			out = append(out, numDocs("above-width", pow2(n-1))...)
			out = append(out, numDocs("below-width", new(big.Int).Sub(neg(pow2(n-1)), one))...)
			out = append(out, numDocs("above-width", pow2(n))...)
		}
	case reVarUint.MatchString(e.Name):
		n, _ := strconv.Atoi(reVarUint.FindStringSubmatch(e.Name)[1])
		out = append(out, numDocs("above-width", pow2(8*(n-1)))...)
		out = append(out, numDocs("negative-for-unsigned", big.NewInt(-1))...)
	case t == reflect.TypeOf(tlb.Grams(0)):
		out = append(out, numDocs("above-width", pow2(64))...)
		out = append(out, numDocs("negative-for-unsigned", big.NewInt(-1))...)
	case t == reflect.TypeOf(tlb.SignedCoins(0)):
		out = append(out, numDocs("above-width", pow2(63))...)
		out = append(out, numDocs("below-width", new(big.Int).Sub(neg(pow2(63)), one))...)
	case t == reflect.TypeOf(tlb.Magic(0)):
		for _, s := range []string{"0x100000000", "0x1000000ff", "0xffffffffffffffff", "100000000"} {
			out = append(out, oddDoc{"above-width", `"` + s + `"`, func(doc, back string) bool {
				d := strings.Trim(doc, `"`)
				if !strings.HasPrefix(d, "0x") {
					d = "0x" + d
				}
				return numSame(`"`+d+`"`, back)
			}})
		}
	case t.Kind() == reflect.Array && t.Elem().Kind() == reflect.Uint8:
		n := t.Len()
		out = append(out,
			oddDoc{"hex-too-short", `"` + hex.EncodeToString(rng.Bytes(n-1)) + `"`, textSame},
			oddDoc{"hex-too-long", `"` + hex.EncodeToString(rng.Bytes(n+1)) + `"`, textSame},
			oddDoc{"hex-too-short", `"` + hex.EncodeToString(rng.Bytes(1)) + `"`, textSame},
			oddDoc{"hex-odd-digits", `"` + hex.EncodeToString(rng.Bytes(n))[1:] + `"`, textSame},
			oddDoc{"not-hex", `"` + "zz" + hex.EncodeToString(rng.Bytes(n-1)) + `"`, textSame},
		)
	case e.Name == "ton.AccountID":
		hx := hex.EncodeToString(rng.Bytes(32))
		out = append(out,
			oddDoc{"hex-too-long", `"0:` + hx + `ab"`, textSame},
			oddDoc{"not-hex", `"0:zz` + hx[2:] + `"`, textSame},
			oddDoc{"workchain-above-width", `"2147483648:` + hx + `"`, textSame},
			oddDoc{"workchain-below-width", `"-2147483649:` + hx + `"`, textSame},
		)
	case t == reflect.TypeOf(boc.Cell{}) || t == reflect.TypeOf(tlb.Any{}):
		a, b := gen.Leaf(rng, true), gen.Leaf(rng, true)
		if raw, err := rboc.Write([]*cell.Cell{a, b}, rboc.Options{}); err == nil {
			out = append(out, oddDoc{"two-roots", `"` + hex.EncodeToString(raw) + `"`, func(doc, back string) bool {
				x, err1 := hex.DecodeString(strings.Trim(doc, `"`))
				y, err2 := hex.DecodeString(strings.Trim(back, `"`))
				if err1 != nil || err2 != nil {
					return false
				}
				rx, _, _, e1 := rboc.Read(x)
				ry, _, _, e2 := rboc.Read(y)
				if e1 != nil || e2 != nil || len(rx) != len(ry) {
					return false
				}
				for i := range rx {
					if rx[i].Hash() != ry[i].Hash() {
						return false
					}
				}
				return true
			}})
		}
	case t == reflect.TypeOf(boc.BitString{}):
		for _, s := range []string{"zz", "0x12", "G_", "1 2", "12__"} {
			out = append(out, oddDoc{"not-fift-hex", `"` + s + `"`, textSame})
		}
	case t == reflect.TypeOf(tlb.MsgAddress{}):
		hx := hex.EncodeToString(rng.Bytes(32))
		for _, s := range []string{"0:" + hx + ":Anycast(x,y)", "0:" + hx + ":Anycast(3)", "0:" + hx + ":Anycast(,)", "0:" + hx + ":Anycast(3,)", "0:" + hx + ":Bnycast(3,1)",
			"0:zz" + hx[2:], "zz", "5:zz", "0:" + hx + ":Anycast(3,1):x"} {
			out = append(out, oddDoc{"bad-anycast-or-hex", `"` + s + `"`, textSame})
		}
	}
	return out
}

func outOfDomainSection(sel []reg.Entry) {
	for _, e := range sel {
		rng := R.Rng("odd-docs/"+e.Name, 0)
		for _, od := range oddDocsFor(e, rng) {
			if !json.Valid([]byte(od.doc)) {
				R.HarnessError("out-of-domain document is not even JSON: %s", od.doc)
				return
			}
			holder := reflect.New(e.Type)
			var uerr error
			if p := mon.Guard(func() { uerr = json.Unmarshal([]byte(od.doc), holder.Interface()) }); p != nil {
				R.Violation("panic@UnmarshalJSON(malformed)/"+e.Name, map[string]any{"type": e.Name, "kind": od.class, "doc": mon.Trunc(od.doc, 800), "panic": p.Value, "stack": mon.Trunc(p.Stack, 1200)})
				continue
			}
			R.Eval(fmt.Sprintf("odd/%s/%s/%s", e.Name, od.class, mon.Trunc(od.doc, 24)))
			R.Count("documents_of_no_value", 1)
			if uerr != nil {
				R.Count("documents_of_no_value_refused", 1)
				continue
			}
			var back []byte
			var merr error
			if p := mon.Guard(func() { back, merr = json.Marshal(holder.Interface()) }); p != nil || merr != nil {
				R.Violation("malformed-accepted-as-unprintable-value@"+e.Name+"/"+od.class, map[string]any{"type": e.Name, "doc": mon.Trunc(od.doc, 800), "err": fmt.Sprint(merr, p)})
				continue
			}
			if od.same(od.doc, string(back)) {
				// kept as written (a type that can hold it): observation only
				R.Count("documents_of_no_value_kept_as_written", 1)
				R.Seen("kept_as_written", reDigits.ReplaceAllString(e.Name, "N")+"/"+od.class)
				continue
			}
			R.Violation("malformed-accepted-and-altered@"+e.Name+"/"+od.class, map[string]any{"type": e.Name, "doc": mon.Trunc(od.doc, 800),
				"accepted_as": mon.Trunc(fmt.Sprintf("%+v", holder.Elem().Interface()), 400), "written_back": mon.Trunc(string(back), 800)})
		}
	}
}

// ---- one value marshalled by several goroutines at once ----
//
// Encoding to JSON is a read: an indexer hands one decoded message to several writers. Every text produced
// from one shared bit string / external address / variable address must parse back to that value. The value
// is fresh in every round (whatever an encoder might leave behind in the value, the first concurrent encodings
// meet it untouched); no comparison of the outputs with each other, only with the value.
func sharedMarshalSection() {
	const workers = 8
	const perWorker = 3
	rounds := R.N(6000, 120000)
	type job struct {
		marshal func() ([]byte, error)
		start   chan struct{}
		out     [][]byte
		errs    []error
		panics  []*mon.Panic
	}
	bad := map[string]bool{}
	for round := 0; round < rounds; round++ {
		rng := R.Rng("shared-marshal", round)
		// lengths that need the padded last digit, long strings more often (a longer encoding is a wider window)
		n := mon.Pick(rng, []int{1023, 1022, 1021, 1019, 1001, 767, 511, 509, 255, 130, 67, 33, 9, 7, 5, 3, 2, 1, 1 + rng.Intn(1023)})
		if n%4 == 0 {
			n--
		}
		if round%3 != 0 && n > 511 {
			n = n % 512
			if n%4 == 0 {
				n++
			}
		}
		want := rng.Bits(n)
		bs := boc.NewBitString(n)
		for _, b := range want {
			_ = bs.WriteBit(b)
		}
		var kind string
		var marshal func() ([]byte, error)
		var parse func(doc []byte) (boc.BitString, error)
		switch round % 3 {
		case 0:
			kind = "boc.BitString"
			shared := &bs
			marshal = func() ([]byte, error) { return json.Marshal(shared) }
			parse = func(doc []byte) (boc.BitString, error) {
				var back boc.BitString
				err := json.Unmarshal(doc, &back)
				return back, err
			}
		case 1:
			kind = "tlb.MsgAddress/AddrExtern"
			shared := tlb.MsgAddress{SumType: "AddrExtern", AddrExtern: &bs}
			marshal = func() ([]byte, error) { return json.Marshal(shared) }
			parse = func(doc []byte) (boc.BitString, error) {
				var back tlb.MsgAddress
				if err := json.Unmarshal(doc, &back); err != nil {
					return boc.BitString{}, err
				}
				if back.SumType != "AddrExtern" || back.AddrExtern == nil {
					return boc.BitString{}, fmt.Errorf("read back as %s", back.SumType)
				}
				return *back.AddrExtern, nil
			}
		default:
			kind = "tlb.MsgAddress/AddrVar"
			wc := 1000 + int32(rng.Intn(100000))
			var shared tlb.MsgAddress
			shared.SumType = "AddrVar"
			shared.AddrVar = &struct {
				Anycast     tlb.Maybe[tlb.Anycast]
				AddrLen     tlb.Uint9
				WorkchainId int32
				Address     boc.BitString
			}{AddrLen: tlb.Uint9(n), WorkchainId: wc, Address: bs}
			marshal = func() ([]byte, error) { return json.Marshal(shared) }
			parse = func(doc []byte) (boc.BitString, error) {
				var back tlb.MsgAddress
				if err := json.Unmarshal(doc, &back); err != nil {
					return boc.BitString{}, err
				}
				if back.SumType != "AddrVar" || back.AddrVar == nil || back.AddrVar.WorkchainId != wc || int(back.AddrVar.AddrLen) != n {
					return boc.BitString{}, fmt.Errorf("read back as %s / another workchain or length", back.SumType)
				}
				return back.AddrVar.Address, nil
			}
		}
		j := &job{marshal: marshal, start: make(chan struct{}), out: make([][]byte, workers*perWorker), errs: make([]error, workers*perWorker), panics: make([]*mon.Panic, workers)}
		var wg sync.WaitGroup
		for g := 0; g < workers; g++ {
			wg.Add(1)
			go func(g int) {
				defer wg.Done()
				<-j.start
				j.panics[g] = mon.Guard(func() {
					for k := 0; k < perWorker; k++ {
						j.out[g*perWorker+k], j.errs[g*perWorker+k] = j.marshal()
					}
				})
			}(g)
		}
		close(j.start)
		wg.Wait()
		R.Eval(fmt.Sprintf("shared-marshal/%s/%d/%d", kind, n, round))
		for g, p := range j.panics {
			if p != nil && !bad["panic/"+kind] {
				bad["panic/"+kind] = true
				R.Violation("panic@MarshalJSON/"+kind+"/shared-by-goroutines", map[string]any{"type": kind, "bits": n, "goroutine": g, "panic": p.Value, "stack": mon.Trunc(p.Stack, 1200)})
			}
		}
		for i, doc := range j.out {
			if j.panics[i/perWorker] != nil {
				continue
			}
			why := ""
			switch {
			case j.errs[i] != nil:
				why = "marshal error: " + j.errs[i].Error()
			case !json.Valid(doc):
				why = "not valid JSON"
			default:
				back, err := parse(doc)
				if err != nil {
					why = "does not parse back: " + err.Error()
				} else {
					got := bridge.Bits(back)
					if len(got) != len(want) {
						why = fmt.Sprintf("%d bits read back, %d in the value", len(got), len(want))
					} else {
						for k := range got {
							if got[k] != want[k] {
								why = fmt.Sprintf("bit %d differs", k)
								break
							}
						}
					}
				}
			}
			if why != "" {
				R.Count("shared_marshal_wrong_outputs", 1)
				if !bad[kind] {
					bad[kind] = true
					alone, _ := marshal()
					R.Violation("wrong-json-when-one-value-is-marshalled-by-several-goroutines@"+kind, map[string]any{"type": kind, "bits": n, "round": round, "goroutines": workers,
						"doc": mon.Trunc(string(doc), 700), "why": why, "same_value_marshalled_alone_afterwards": mon.Trunc(string(alone), 700)})
				}
			}
		}
		R.Count("shared_marshal_rounds", 1)
	}
}

func extraSections(sel []reg.Entry) {
	sharedMarshalSection()
	magicSection()
	bitStringSweep()
	envelopeSection()
	exoticSection()
	anycastMalformedSection()
	outOfDomainSection(sel)
}
