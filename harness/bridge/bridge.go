// Package bridge converts between tongo's boc.Cell and the reference cell
// model, observing tongo only through its exported API.
package bridge

import (
	"fmt"

	tboc "github.com/tonkeeper/tongo/boc"

	rboc "verifharness/ref/boc"
	"verifharness/ref/cell"
)

// Bits reads the written bits of a tongo BitString from its buffer.
func Bits(s tboc.BitString) []bool {
	n := s.GetWriteCursor()
	buf := s.Buffer()
	out := make([]bool, n)
	for i := 0; i < n; i++ {
		if i/8 < len(buf) {
			out[i] = buf[i/8]&(1<<uint(7-i%8)) != 0
		}
	}
	return out
}

// FromTongo mirrors a tongo cell tree into the reference model (memoised
// on pointers so that DAG sharing is preserved). Panics are the caller's
// business (use mon.Guard).
func FromTongo(c *tboc.Cell) *cell.Cell {
	return fromTongo(c, map[*tboc.Cell]*cell.Cell{}, 0)
}

func FromTongoMemo(c *tboc.Cell, memo map[*tboc.Cell]*cell.Cell) *cell.Cell {
	return fromTongo(c, memo, 0)
}

func fromTongo(c *tboc.Cell, memo map[*tboc.Cell]*cell.Cell, depth int) *cell.Cell {
	if x, ok := memo[c]; ok {
		return x
	}
	if depth > 2000 {
		panic("bridge: tongo cell tree deeper than 2000 (cycle?)")
	}
	x := cell.New(Bits(c.RawBitString()), c.IsExotic())
	memo[c] = x
	for _, r := range c.Refs() {
		x.Refs = append(x.Refs, fromTongo(r, memo, depth+1))
	}
	return x
}

// ToTongoBuilt builds an ordinary-only reference DAG with tongo's
// in-memory API (NewCell / WriteBit / AddRef). Sharing by pointer is
// preserved.
func ToTongoBuilt(c *cell.Cell) (*tboc.Cell, error) {
	return toTongoBuilt(c, map[*cell.Cell]*tboc.Cell{})
}

func toTongoBuilt(c *cell.Cell, memo map[*cell.Cell]*tboc.Cell) (*tboc.Cell, error) {
	if x, ok := memo[c]; ok {
		return x, nil
	}
	if c.Exotic {
		return nil, fmt.Errorf("exotic cells cannot be built in memory")
	}
	t := tboc.NewCell()
	// write in chunks through different writers
	i := 0
	for i < len(c.Bits) {
		n := len(c.Bits) - i
		if n > 64 {
			n = 64
		}
		var v uint64
		for k := 0; k < n; k++ {
			v <<= 1
			if c.Bits[i+k] {
				v |= 1
			}
		}
		if err := t.WriteUint(v, n); err != nil {
			return nil, err
		}
		i += n
	}
	for _, r := range c.Refs {
		x, err := toTongoBuilt(r, memo)
		if err != nil {
			return nil, err
		}
		if err := t.AddRef(x); err != nil {
			return nil, err
		}
	}
	memo[c] = t
	return t, nil
}

// ToTongoParsed delivers any reference DAG (incl. exotic cells) to tongo by
// writing it with the reference writer and parsing it with tongo.
func ToTongoParsed(roots []*cell.Cell, o rboc.Options) ([]*tboc.Cell, []byte, error) {
	b, err := rboc.Write(roots, o)
	if err != nil {
		return nil, nil, fmt.Errorf("reference writer: %w", err)
	}
	cs, err := tboc.DeserializeBoc(b)
	return cs, b, err
}

// Diff compares a tongo tree with a reference tree structurally (bits,
// exotic flag, refs in order), memoised on pointer pairs. It returns a
// description of the first difference or "".
func Diff(t *tboc.Cell, r *cell.Cell) string {
	type pair struct {
		t *tboc.Cell
		r *cell.Cell
	}
	seen := map[pair]bool{}
	var walk func(t *tboc.Cell, r *cell.Cell, path string, depth int) string
	walk = func(t *tboc.Cell, r *cell.Cell, path string, depth int) string {
		if seen[pair{t, r}] {
			return ""
		}
		seen[pair{t, r}] = true
		if depth > 2000 {
			return path + ": deeper than 2000"
		}
		tb := Bits(t.RawBitString())
		if len(tb) != len(r.Bits) {
			return fmt.Sprintf("%s: %d bits, want %d", path, len(tb), len(r.Bits))
		}
		for i := range tb {
			if tb[i] != r.Bits[i] {
				return fmt.Sprintf("%s: bit %d differs", path, i)
			}
		}
		if t.IsExotic() != r.Exotic {
			return fmt.Sprintf("%s: exotic=%v, want %v", path, t.IsExotic(), r.Exotic)
		}
		if r.Exotic && int(t.CellType()) != r.Type() {
			return fmt.Sprintf("%s: cell type %d, want %d", path, t.CellType(), r.Type())
		}
		tr := t.Refs()
		if len(tr) != len(r.Refs) {
			return fmt.Sprintf("%s: %d refs, want %d", path, len(tr), len(r.Refs))
		}
		for i := range tr {
			if d := walk(tr[i], r.Refs[i], fmt.Sprintf("%s/%d", path, i), depth+1); d != "" {
				return d
			}
		}
		return ""
	}
	return walk(t, r, "root", 0)
}
