package mon

import (
	"fmt"
	"runtime"
	"runtime/metrics"
	"strings"
	"syscall"
	"time"
)

// Panic describes a recovered panic inside code under observation.
type Panic struct {
	Value string // fmt.Sprint of the panic value
	Site  string // first tongo frame (function name, no line number)
	Stack string // trimmed stack
}

// Guard runs f and reports a panic instead of propagating it.
func Guard(f func()) (p *Panic) {
	defer func() {
		if v := recover(); v != nil {
			pcs := make([]uintptr, 64)
			n := runtime.Callers(2, pcs)
			frames := runtime.CallersFrames(pcs[:n])
			site := ""
			var sb strings.Builder
			for i := 0; i < 40; i++ {
				fr, more := frames.Next()
				if fr.Function != "" {
					fmt.Fprintf(&sb, "%s:%d\n", fr.Function, fr.Line)
					if site == "" && strings.Contains(fr.Function, "tonkeeper/tongo") {
						site = fr.Function
					}
				}
				if !more {
					break
				}
			}
			if site == "" {
				site = "?"
			}
			site = strings.TrimPrefix(site, "github.com/tonkeeper/tongo/")
			p = &Panic{Value: Trunc(fmt.Sprint(v), 300), Site: site, Stack: sb.String()}
		}
	}()
	f()
	return nil
}

// PanicClass reduces a panic value to a stable class for signatures
// (numbers removed so that "index out of range [5] with length 3" and
// "[7] with length 2" coincide).
func PanicClass(v string) string {
	var sb strings.Builder
	lastDigit := false
	for _, c := range v {
		if c >= '0' && c <= '9' {
			if !lastDigit {
				sb.WriteByte('N')
			}
			lastDigit = true
			continue
		}
		lastDigit = false
		sb.WriteRune(c)
	}
	s := sb.String()
	if len(s) > 80 {
		s = s[:80]
	}
	return s
}

// CPUSeconds returns user+system CPU time consumed by this process.
func CPUSeconds() float64 {
	var ru syscall.Rusage
	if syscall.Getrusage(syscall.RUSAGE_SELF, &ru) != nil {
		return 0
	}
	return float64(ru.Utime.Sec+ru.Stime.Sec) + float64(ru.Utime.Usec+ru.Stime.Usec)/1e6
}

var allocSample = []metrics.Sample{{Name: "/gc/heap/allocs:bytes"}}

// AllocBytes returns the cumulative number of heap bytes allocated by the
// process. Only meaningful as a delta in a worker that runs one case at a
// time.
func AllocBytes() uint64 {
	metrics.Read(allocSample)
	return allocSample[0].Value.Uint64()
}

// AllocBytesExact is the exact cumulative allocation count (stops the world
// briefly); use it when the bound is tight.
func AllocBytesExact() uint64 {
	var ms runtime.MemStats
	runtime.ReadMemStats(&ms)
	return ms.TotalAlloc
}

// Meter measures one call.
type Meter struct {
	cpu0   float64
	alloc0 uint64
	t0     time.Time
}

func StartMeter() Meter { return Meter{cpu0: CPUSeconds(), alloc0: AllocBytesExact(), t0: time.Now()} }

func (m Meter) Stop() (cpu float64, alloc uint64, wall time.Duration) {
	return CPUSeconds() - m.cpu0, AllocBytesExact() - m.alloc0, time.Since(m.t0)
}
