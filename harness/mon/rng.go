// Package mon is the monitor runtime shared by all property checks:
// seeded PRNG, evidence writer, violation/known-finding bookkeeping,
// panic/CPU/allocation meters and the child-process batch runner.
package mon

import (
	"hash/fnv"
	"math/big"
)

// Rng is a splitmix64 stream. It is deliberately not math/rand so that the
// stream is identical across Go versions.
type Rng struct{ s uint64 }

func NewRng(seed uint64) *Rng { return &Rng{s: seed} }

func (r *Rng) Uint64() uint64 {
	r.s += 0x9e3779b97f4a7c15
	z := r.s
	z = (z ^ (z >> 30)) * 0xbf58476d1ce4e5b9
	z = (z ^ (z >> 27)) * 0x94d049bb133111eb
	return z ^ (z >> 31)
}

// Intn returns a value in [0,n). n<=0 yields 0.
func (r *Rng) Intn(n int) int {
	if n <= 0 {
		return 0
	}
	return int(r.Uint64() % uint64(n))
}

// Range returns a value in [lo,hi].
func (r *Rng) Range(lo, hi int) int {
	if hi <= lo {
		return lo
	}
	return lo + r.Intn(hi-lo+1)
}

func (r *Rng) Bool() bool { return r.Uint64()&1 == 1 }

// Chance returns true with probability num/den.
func (r *Rng) Chance(num, den int) bool { return r.Intn(den) < num }

func (r *Rng) Bytes(n int) []byte {
	b := make([]byte, n)
	for i := 0; i < n; i += 8 {
		v := r.Uint64()
		for j := 0; j < 8 && i+j < n; j++ {
			b[i+j] = byte(v >> (8 * j))
		}
	}
	return b
}

// Bits returns n random bits as a []bool.
func (r *Rng) Bits(n int) []bool {
	out := make([]bool, n)
	var v uint64
	for i := 0; i < n; i++ {
		if i%64 == 0 {
			v = r.Uint64()
		}
		out[i] = v&1 == 1
		v >>= 1
	}
	return out
}

// BigBits returns a uniformly random non-negative integer below 2^n.
func (r *Rng) BigBits(n int) *big.Int {
	if n <= 0 {
		return new(big.Int)
	}
	b := r.Bytes((n + 7) / 8)
	if n%8 != 0 {
		b[0] &= byte(1<<(n%8)) - 1
	}
	return new(big.Int).SetBytes(b)
}

func (r *Rng) Perm(n int) []int {
	p := make([]int, n)
	for i := range p {
		p[i] = i
	}
	for i := n - 1; i > 0; i-- {
		j := r.Intn(i + 1)
		p[i], p[j] = p[j], p[i]
	}
	return p
}

// Fork derives an independent stream for a sub-case.
func (r *Rng) Fork(label string, idx int) *Rng {
	return NewRng(r.s ^ Hash64(label) ^ (uint64(idx)+1)*0xd6e8feb86659fd93)
}

func Hash64(s string) uint64 {
	h := fnv.New64a()
	h.Write([]byte(s))
	return h.Sum64()
}

// Pick returns a random element of xs.
func Pick[T any](r *Rng, xs []T) T { return xs[r.Intn(len(xs))] }
