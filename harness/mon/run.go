package mon

import (
	"crypto/sha256"
	"encoding/hex"
	"encoding/json"
	"fmt"
	"os"
	"path/filepath"
	"sort"
	"strconv"
	"strings"
	"sync"
	"time"
)

// VerifRoot is where MANIFEST.json, evidence/, replays/ and
// known_findings.json live. Overridable for scratch runs.
func VerifRoot() string {
	if v := os.Getenv("VERIF_ROOT"); v != "" {
		return v
	}
	return "/verif"
}

// RepoRoot is the tongo tree the harness was built against (the module
// replace points there); used by checks that read testdata or sources.
func RepoRoot() string {
	if v := os.Getenv("VERIF_REPO"); v != "" {
		return v
	}
	return "/repo"
}

type violation struct {
	Signature string `json:"signature"`
	Count     int    `json:"count"`
	Witness   any    `json:"witness"`
	Known     bool   `json:"known"`
	What      string `json:"what,omitempty"`
	Replay    string `json:"replay,omitempty"`
}

type knownFinding struct {
	Property  string `json:"property"`
	Signature string `json:"signature"`
	Status    string `json:"status"` // "known" | "fixed"
	Commit    string `json:"commit,omitempty"`
	What      string `json:"what"`
}

// Run collects what the monitors of one check invocation observed.
// All methods are safe for concurrent use.
type Run struct {
	Prop  string
	Tier  string
	Level string // evidence level category
	Rule  string
	seed  uint64
	start time.Time

	mu           sync.Mutex
	evals        int64
	distinct     map[uint64]struct{}
	samples      []any
	maxSamples   int
	counters     map[string]int64
	sets         map[string]map[string]struct{}
	viol         map[string]*violation
	violOrder    []string
	inconclusive map[string]int
	assumptions  []string
	extra        map[string]any
	known        []knownFinding
	exhaustive   *bool
	harnessErr   string
}

// Start begins a run. tier comes from argv (quick|thorough); seed from
// VERIF_SEED (default 1).
func Start(prop, tier string) *Run {
	seed := uint64(1)
	if v := os.Getenv("VERIF_SEED"); v != "" {
		if n, err := strconv.ParseUint(v, 10, 64); err == nil {
			seed = n
		} else if n, err := strconv.ParseInt(v, 10, 64); err == nil {
			seed = uint64(n)
		}
	}
	if tier != "quick" && tier != "thorough" {
		fmt.Printf("HARNESS-ERROR bad tier %q\n", tier)
		os.Exit(3)
	}
	r := &Run{
		Prop: prop, Tier: tier, Level: "exploration", seed: seed, start: time.Now(),
		distinct: map[uint64]struct{}{}, maxSamples: 6,
		counters: map[string]int64{}, sets: map[string]map[string]struct{}{},
		viol: map[string]*violation{}, inconclusive: map[string]int{}, extra: map[string]any{},
	}
	r.loadKnown()
	return r
}

func (r *Run) loadKnown() {
	b, err := os.ReadFile(filepath.Join(VerifRoot(), "known_findings.json"))
	if err != nil {
		return
	}
	var f struct {
		Findings []knownFinding `json:"findings"`
	}
	if json.Unmarshal(b, &f) != nil {
		fmt.Println("HARNESS-ERROR known_findings.json does not parse")
		os.Exit(3)
	}
	for _, k := range f.Findings {
		if k.Property == r.Prop {
			r.known = append(r.known, k)
		}
	}
}

func (r *Run) Seed() uint64   { return r.seed }
func (r *Run) Thorough() bool { return r.Tier == "thorough" }

// N picks the per-tier case count.
func (r *Run) N(quick, thorough int) int {
	if r.Thorough() {
		return thorough
	}
	return quick
}

// Rng returns the stream for one case: depends only on (seed, property, label, idx).
func (r *Run) Rng(label string, idx int) *Rng {
	return NewRng(r.seed*0x9e3779b97f4a7c15 ^ Hash64(r.Prop+"/"+label) ^ (uint64(idx)+1)*0xd6e8feb86659fd93)
}

// Eval counts one evaluation. fp is the case's fingerprint for the
// distinct-nontrivial count; an empty fp means "trivial by the rule".
func (r *Run) Eval(fp string) {
	r.mu.Lock()
	r.evals++
	if fp != "" {
		r.distinct[Hash64(fp)] = struct{}{}
	}
	r.mu.Unlock()
}

// EvalN counts n evaluations sharing one fingerprint class.
func (r *Run) EvalN(n int64, fp string) {
	r.mu.Lock()
	r.evals += n
	if fp != "" {
		r.distinct[Hash64(fp)] = struct{}{}
	}
	r.mu.Unlock()
}

func (r *Run) Sample(v any) {
	r.mu.Lock()
	if len(r.samples) < r.maxSamples {
		r.samples = append(r.samples, v)
	}
	r.mu.Unlock()
}

func (r *Run) Count(name string, d int64) {
	r.mu.Lock()
	r.counters[name] += d
	r.mu.Unlock()
}

// Seen adds member to a named set; the evidence reports the set sizes (and
// small sets in full).
func (r *Run) Seen(set, member string) {
	r.mu.Lock()
	m := r.sets[set]
	if m == nil {
		m = map[string]struct{}{}
		r.sets[set] = m
	}
	m[member] = struct{}{}
	r.mu.Unlock()
}

func (r *Run) SetSize(set string) int {
	r.mu.Lock()
	defer r.mu.Unlock()
	return len(r.sets[set])
}

func (r *Run) Extra(key string, v any) {
	r.mu.Lock()
	r.extra[key] = v
	r.mu.Unlock()
}

func (r *Run) Assume(s string) {
	r.mu.Lock()
	r.assumptions = append(r.assumptions, s)
	r.mu.Unlock()
}

func (r *Run) SetExhaustive(b bool) { r.mu.Lock(); r.exhaustive = &b; r.mu.Unlock() }

// Violation records a refuting observation. signature identifies the
// specific failure (stable across runs: site + class, never raw input);
// witness is what a reader needs to replay it.
func (r *Run) Violation(signature string, witness any) {
	if strings.HasPrefix(signature, "panic@?") {
		// a panic without a single tongo frame on its stack is the harness's own bug, not an
		// observation about tongo: report the check as broken, never as a violation
		b, _ := json.Marshal(witness)
		r.HarnessError("panic outside tongo (%s): %s", signature, Trunc(string(b), 600))
		return
	}
	r.mu.Lock()
	defer r.mu.Unlock()
	v := r.viol[signature]
	if v == nil {
		v = &violation{Signature: signature, Witness: witness}
		for _, k := range r.known {
			if k.Status == "known" && sigMatch(k.Signature, signature) {
				v.Known = true
				v.What = k.What
			}
		}
		r.viol[signature] = v
		r.violOrder = append(r.violOrder, signature)
	}
	v.Count++
}

func sigMatch(pat, sig string) bool {
	if strings.HasSuffix(pat, "*") {
		return strings.HasPrefix(sig, strings.TrimSuffix(pat, "*"))
	}
	return pat == sig
}

// Inconclusive records a case whose verdict could not be decided
// (watchdog, checker timeout, overloaded machine). Never a violation.
func (r *Run) Inconclusive(reason string) {
	r.mu.Lock()
	r.inconclusive[reason]++
	r.mu.Unlock()
}

// HarnessError marks the run as broken (exit 3): a reference model failed
// its self-check, a hook was never reached, a build step failed.
func (r *Run) HarnessError(format string, a ...any) {
	r.mu.Lock()
	if r.harnessErr == "" {
		r.harnessErr = fmt.Sprintf(format, a...)
	}
	r.mu.Unlock()
}

func (r *Run) Violations() int {
	r.mu.Lock()
	defer r.mu.Unlock()
	n := 0
	for _, v := range r.viol {
		if !v.Known {
			n++
		}
	}
	return n
}

// Finish writes the evidence file and replay files, prints the verdict
// lines and returns the process exit code.
func (r *Run) Finish() int {
	r.mu.Lock()
	defer r.mu.Unlock()
	wall := time.Since(r.start).Seconds()
	root := VerifRoot()

	unknown := 0
	replayDir := filepath.Join(root, "replays", r.Prop)
	for i, sig := range r.violOrder {
		v := r.viol[sig]
		if v.Known {
			fmt.Printf("KNOWN-FINDING: property=%s %s [%s] (seen %d times)\n", r.Prop, v.What, sig, v.Count)
			continue
		}
		unknown++
		if i < 40 {
			os.MkdirAll(replayDir, 0o755)
			h := sha256.Sum256([]byte(sig))
			p := filepath.Join(replayDir, fmt.Sprintf("%s-%s-seed%d-%s.json", r.Prop, r.Tier, r.seed, hex.EncodeToString(h[:6])))
			doc := map[string]any{"property": r.Prop, "tier": r.Tier, "seed": r.seed, "signature": sig, "count": v.Count, "witness": v.Witness}
			if b, err := json.MarshalIndent(doc, "", " "); err == nil {
				os.WriteFile(p, b, 0o644)
			} else {
				os.WriteFile(p, []byte(fmt.Sprintf("{\"property\":%q,\"tier\":%q,\"seed\":%d,\"signature\":%q,\"witness\":%q}", r.Prop, r.Tier, r.seed, sig, fmt.Sprint(v.Witness))), 0o644)
			}
			v.Replay = p
			fmt.Printf("VIOLATION property=%s replay=%s\n", r.Prop, p)
			fmt.Printf("  signature: %s (seen %d times)\n", sig, v.Count)
		}
	}
	// "fixed" entries suppress nothing; report when one returns.
	for _, k := range r.known {
		if k.Status != "fixed" {
			continue
		}
		for _, sig := range r.violOrder {
			if sigMatch(k.Signature, sig) {
				fmt.Printf("  note: signature %s was recorded as fixed in %s and has returned\n", sig, k.Commit)
			}
		}
	}
	nInc := 0
	for reason, n := range r.inconclusive {
		nInc += n
		fmt.Printf("INCONCLUSIVE property=%s n=%d reason=%s\n", r.Prop, n, reason)
	}

	cov := map[string]any{
		"evaluations":         r.evals,
		"distinct_nontrivial": len(r.distinct),
		"rule":                r.Rule,
		"samples":             r.samples,
		"inconclusive":        r.inconclusive,
	}
	if r.exhaustive != nil {
		cov["exhaustive"] = *r.exhaustive
	}
	if len(r.counters) > 0 {
		cov["counters"] = r.counters
	}
	if len(r.sets) > 0 {
		sizes := map[string]int{}
		for name, m := range r.sets {
			sizes[name] = len(m)
			if len(m) <= 400 {
				keys := make([]string, 0, len(m))
				for k := range m {
					keys = append(keys, k)
				}
				sort.Strings(keys)
				cov["set:"+name] = keys
			}
		}
		cov["set_sizes"] = sizes
	}
	for k, v := range r.extra {
		cov[k] = v
	}
	if len(r.violOrder) > 0 {
		vs := []any{}
		for i, sig := range r.violOrder {
			if i >= 40 {
				break
			}
			v := r.viol[sig]
			vs = append(vs, map[string]any{"signature": sig, "count": v.Count, "known": v.Known, "replay": v.Replay})
		}
		cov["violation_signatures"] = vs
	}
	if cov["samples"] == nil {
		cov["samples"] = []any{}
	}
	ev := map[string]any{
		"property_id": r.Prop,
		"tier":        r.Tier,
		"seed":        int64(r.seed),
		"level":       r.Level,
		"coverage":    cov,
		"assumptions": r.assumptions,
		"wall_s":      wall,
		"violations":  unknown,
	}
	if ev["assumptions"] == nil {
		ev["assumptions"] = []string{}
	}
	os.MkdirAll(filepath.Join(root, "evidence"), 0o755)
	b, err := json.MarshalIndent(ev, "", " ")
	if err != nil {
		fmt.Printf("HARNESS-ERROR evidence does not marshal: %v\n", err)
		return 3
	}
	evPath := filepath.Join(root, "evidence", r.Prop+".json")
	tmp := evPath + fmt.Sprintf(".tmp%d", os.Getpid())
	if err := os.WriteFile(tmp, b, 0o644); err != nil || os.Rename(tmp, evPath) != nil {
		fmt.Printf("HARNESS-ERROR cannot write evidence: %v\n", err)
		return 3
	}

	fmt.Printf("SUMMARY property=%s tier=%s seed=%d evaluations=%d distinct_nontrivial=%d violations=%d known=%d inconclusive=%d wall_s=%.1f\n",
		r.Prop, r.Tier, r.seed, r.evals, len(r.distinct), unknown, len(r.violOrder)-unknown, nInc, wall)
	if unknown > 0 {
		return 1
	}
	if r.harnessErr != "" {
		fmt.Printf("HARNESS-ERROR %s\n", r.harnessErr)
		return 3
	}
	if r.evals == 0 || len(r.distinct) < 2 {
		fmt.Println("HARNESS-ERROR observed nothing")
		return 3
	}
	return 0
}

// Trunc shortens a string for witnesses and samples.
func Trunc(s string, n int) string {
	if len(s) <= n {
		return s
	}
	return s[:n] + fmt.Sprintf("...(+%d)", len(s)-n)
}

func Hex(b []byte) string { return hex.EncodeToString(b) }

// HexTrunc renders at most n bytes.
func HexTrunc(b []byte, n int) string {
	if len(b) <= n {
		return hex.EncodeToString(b)
	}
	return hex.EncodeToString(b[:n]) + fmt.Sprintf("...(+%d bytes)", len(b)-n)
}
