package mon

import (
	"bufio"
	"encoding/binary"
	"encoding/json"
	"fmt"
	"os"
	"os/exec"
	"path/filepath"
	"math"
	"strings"
	"sync"
	"sync/atomic"
	"syscall"
	"time"
)

// Sink is what workloads report into: a *Run (in-process) or a *Worker
// (child process; merged into the parent's Run).
type Sink interface {
	Eval(fp string)
	EvalN(n int64, fp string)
	Count(name string, d int64)
	Seen(set, member string)
	Sample(v any)
	Violation(signature string, witness any)
	Inconclusive(reason string)
}

// delta is one flush of a worker's aggregates.
type delta struct {
	Evals    int64               `json:"e,omitempty"`
	FPs      []uint64            `json:"f,omitempty"`
	Counts   map[string]int64    `json:"n,omitempty"`
	Seen     map[string][]string `json:"s,omitempty"`
	Samples  []any               `json:"x,omitempty"`
	Viol     string              `json:"v,omitempty"`
	Witness  any                 `json:"w,omitempty"`
	Inc      string              `json:"i,omitempty"`
	Done     bool                `json:"done,omitempty"`
	HarnessE string              `json:"he,omitempty"`
}

// Worker is the child-side sink.
type Worker struct {
	Dir  string
	Name string
	Job  json.RawMessage
	Seed uint64
	Tier string
	Prop string

	mu      sync.Mutex
	out     *bufio.Writer
	f       *os.File
	d       delta
	fps     map[uint64]struct{}
	seen    map[string]map[string]struct{}
	nSample int
	pending string
	pf      *os.File
	sinceFl int

	// CaseCPULimit, when set before the first Begin, arms a watchdog that ends the
	// process once the case between Begin and End has used more than this many
	// seconds of process CPU time (a loop that never returns cannot report itself).
	// CPU time, not wall time: a loaded machine does not trip it.
	CaseCPULimit float64
	wdOnce       sync.Once
	caseSeq      atomic.Int64 // odd while a case is pending
	caseCPU0     atomic.Uint64
	note         atomic.Value
}

// Note names the step of the pending case (shown when the watchdog fires).
func (w *Worker) Note(step string) { w.note.Store(step) }

func (w *Worker) watchdog() {
	for {
		time.Sleep(200 * time.Millisecond)
		seq := w.caseSeq.Load()
		if seq%2 == 0 {
			continue
		}
		used := CPUSeconds() - math.Float64frombits(w.caseCPU0.Load())
		if used > w.CaseCPULimit && w.caseSeq.Load() == seq {
			step, _ := w.note.Load().(string)
			os.WriteFile(filepath.Join(w.Dir, "cpu_exceeded"), []byte(fmt.Sprintf("%.1f\n%s\n", used, step)), 0o644)
			os.Exit(7)
		}
	}
}

type jobFile struct {
	Name  string          `json:"name"`
	Prop  string          `json:"prop"`
	Tier  string          `json:"tier"`
	Seed  uint64          `json:"seed"`
	Input json.RawMessage `json:"input"`
}

func IsWorker() bool { return len(os.Args) >= 3 && os.Args[1] == "--worker" }

// WorkerMain runs the handler named in the job file and exits.
func WorkerMain(handlers map[string]func(w *Worker)) {
	dir := os.Args[2]
	b, err := os.ReadFile(filepath.Join(dir, "job.json"))
	if err != nil {
		fmt.Fprintln(os.Stderr, "worker: no job:", err)
		os.Exit(4)
	}
	var jf jobFile
	if err := json.Unmarshal(b, &jf); err != nil {
		fmt.Fprintln(os.Stderr, "worker: bad job:", err)
		os.Exit(4)
	}
	f, err := os.OpenFile(filepath.Join(dir, "events.jsonl"), os.O_CREATE|os.O_WRONLY|os.O_APPEND, 0o644)
	if err != nil {
		fmt.Fprintln(os.Stderr, "worker:", err)
		os.Exit(4)
	}
	w := &Worker{Dir: dir, Name: jf.Name, Job: jf.Input, Seed: jf.Seed, Tier: jf.Tier, Prop: jf.Prop,
		f: f, out: bufio.NewWriter(f), fps: map[uint64]struct{}{}, seen: map[string]map[string]struct{}{},
		pending: filepath.Join(dir, "pending")}
	h := handlers[jf.Name]
	if h == nil {
		fmt.Fprintln(os.Stderr, "worker: unknown handler", jf.Name)
		os.Exit(4)
	}
	h(w)
	w.mu.Lock()
	w.d.Done = true
	w.flushLocked()
	w.mu.Unlock()
	w.End()
	os.Exit(0)
}

func (w *Worker) Thorough() bool { return w.Tier == "thorough" }

// Rng mirrors Run.Rng.
func (w *Worker) Rng(label string, idx int) *Rng {
	return NewRng(w.Seed*0x9e3779b97f4a7c15 ^ Hash64(w.Prop+"/"+label) ^ (uint64(idx)+1)*0xd6e8feb86659fd93)
}

// Begin records the case about to run so that the parent can name the
// culprit if the process dies (fatal error, OOM, stack overflow). One pwrite
// into a file that stays open: [8-byte LE total length][id]\n[input].
func (w *Worker) Begin(caseID string, input []byte) {
	if w.pf == nil {
		f, err := os.OpenFile(w.pending, os.O_CREATE|os.O_RDWR, 0o644)
		if err != nil {
			return
		}
		w.pf = f
	}
	n := len(caseID) + 1 + len(input)
	buf := make([]byte, 8, 8+n)
	binary.LittleEndian.PutUint64(buf, uint64(n))
	buf = append(buf, caseID...)
	buf = append(buf, '\n')
	buf = append(buf, input...)
	w.pf.WriteAt(buf, 0)
	if w.CaseCPULimit > 0 {
		w.caseCPU0.Store(math.Float64bits(CPUSeconds()))
		w.caseSeq.Add(1)
		w.wdOnce.Do(func() { go w.watchdog() })
	}
}

var zero8 [8]byte

// End marks the case as survived.
func (w *Worker) End() {
	if w.CaseCPULimit > 0 && w.caseSeq.Load()%2 == 1 {
		w.caseSeq.Add(1)
	}
	if w.pf != nil {
		w.pf.WriteAt(zero8[:], 0)
	}
}

func (w *Worker) flushLocked() {
	if len(w.fps) > 0 {
		w.d.FPs = make([]uint64, 0, len(w.fps))
		for k := range w.fps {
			w.d.FPs = append(w.d.FPs, k)
		}
		w.fps = map[uint64]struct{}{}
	}
	if len(w.seen) > 0 {
		w.d.Seen = map[string][]string{}
		for s, m := range w.seen {
			for k := range m {
				w.d.Seen[s] = append(w.d.Seen[s], k)
			}
		}
		w.seen = map[string]map[string]struct{}{}
	}
	b, err := json.Marshal(&w.d)
	if err != nil {
		b, _ = json.Marshal(&delta{HarnessE: "worker event does not marshal: " + err.Error()})
	}
	w.out.Write(b)
	w.out.WriteByte('\n')
	w.out.Flush()
	w.d = delta{}
	w.sinceFl = 0
}

func (w *Worker) tick() {
	w.sinceFl++
	if w.sinceFl >= 2000 {
		w.flushLocked()
	}
}

func (w *Worker) Eval(fp string) { w.EvalN(1, fp) }
func (w *Worker) EvalN(n int64, fp string) {
	w.mu.Lock()
	w.d.Evals += n
	if fp != "" {
		w.fps[Hash64(fp)] = struct{}{}
	}
	w.tick()
	w.mu.Unlock()
}
func (w *Worker) Count(name string, d int64) {
	w.mu.Lock()
	if w.d.Counts == nil {
		w.d.Counts = map[string]int64{}
	}
	w.d.Counts[name] += d
	w.mu.Unlock()
}
func (w *Worker) Seen(set, member string) {
	w.mu.Lock()
	m := w.seen[set]
	if m == nil {
		m = map[string]struct{}{}
		w.seen[set] = m
	}
	m[member] = struct{}{}
	w.mu.Unlock()
}
func (w *Worker) Sample(v any) {
	w.mu.Lock()
	if w.nSample < 2 {
		w.nSample++
		w.d.Samples = append(w.d.Samples, v)
	}
	w.mu.Unlock()
}
func (w *Worker) Violation(signature string, witness any) {
	if strings.HasPrefix(signature, "panic@?") {
		b, _ := json.Marshal(witness)
		w.HarnessError("panic outside tongo (" + signature + "): " + Trunc(string(b), 600))
		return
	}
	w.mu.Lock()
	w.flushLocked()
	w.d.Viol = signature
	w.d.Witness = witness
	w.flushLocked()
	w.mu.Unlock()
}
func (w *Worker) Inconclusive(reason string) {
	w.mu.Lock()
	w.flushLocked()
	w.d.Inc = reason
	w.flushLocked()
	w.mu.Unlock()
}
func (w *Worker) HarnessError(msg string) {
	w.mu.Lock()
	w.flushLocked()
	w.d.HarnessE = msg
	w.flushLocked()
	w.mu.Unlock()
}

// ---- parent side ----

type Job struct {
	Name  string
	Input any
}

type ChildOpts struct {
	Parallel  int           // concurrent children (default 16)
	UlimitKiB int64         // ulimit -v for the child; 0 = none
	Timeout   time.Duration // wall watchdog per child (default 15 min) -> inconclusive
	Env       []string
}

// Crash describes a child that died without finishing.
type Crash struct {
	Job      int
	Case     string
	Input    []byte
	Stderr   string
	ExitInfo string
	TimedOut bool
	// CPUExceeded > 0: the worker's per-case CPU watchdog ended the process after
	// that many CPU seconds inside the pending case; CPUStep is the step it was in.
	CPUExceeded float64
	CPUStep     string
}

// RunJobs executes every job in its own child process (same binary,
// "--worker <dir>"), merges the workers' observations into r, and calls
// onCrash for each child that died; onCrash decides whether that is a
// violation (fatal error on an input) or inconclusive (watchdog).
func (r *Run) RunJobs(jobs []Job, opts ChildOpts, onCrash func(c Crash)) {
	if opts.Parallel <= 0 {
		opts.Parallel = 16
	}
	if opts.Timeout <= 0 {
		opts.Timeout = 15 * time.Minute
	}
	self, err := os.Executable()
	if err != nil {
		r.HarnessError("os.Executable: %v", err)
		return
	}
	base, err := os.MkdirTemp("", "verif-"+r.Prop+"-")
	if err != nil {
		r.HarnessError("mkdtemp: %v", err)
		return
	}
	defer os.RemoveAll(base)
	sem := make(chan struct{}, opts.Parallel)
	var wg sync.WaitGroup
	for i, j := range jobs {
		wg.Add(1)
		sem <- struct{}{}
		go func(i int, j Job) {
			defer wg.Done()
			defer func() { <-sem }()
			dir := filepath.Join(base, fmt.Sprintf("job%05d", i))
			os.MkdirAll(dir, 0o755)
			defer os.RemoveAll(dir)
			in, err := json.Marshal(j.Input)
			if err != nil {
				r.HarnessError("job input does not marshal: %v", err)
				return
			}
			jb, _ := json.Marshal(jobFile{Name: j.Name, Prop: r.Prop, Tier: r.Tier, Seed: r.seed, Input: in})
			os.WriteFile(filepath.Join(dir, "job.json"), jb, 0o644)
			var cmd *exec.Cmd
			if opts.UlimitKiB > 0 {
				cmd = exec.Command("sh", "-c", fmt.Sprintf("ulimit -v %d; exec \"$0\" \"$@\"", opts.UlimitKiB), self, "--worker", dir)
			} else {
				cmd = exec.Command(self, "--worker", dir)
			}
			cmd.Env = append(os.Environ(), opts.Env...)
			errFile, _ := os.Create(filepath.Join(dir, "stderr"))
			cmd.Stderr = errFile
			cmd.Stdout = errFile
			if err := cmd.Start(); err != nil {
				r.HarnessError("start child: %v", err)
				return
			}
			done := make(chan error, 1)
			go func() { done <- cmd.Wait() }()
			timedOut := false
			var werr error
			select {
			case werr = <-done:
			case <-time.After(opts.Timeout):
				timedOut = true
				cmd.Process.Signal(syscall.SIGQUIT)
				select {
				case werr = <-done:
				case <-time.After(10 * time.Second):
					cmd.Process.Kill()
					werr = <-done
				}
			}
			errFile.Close()
			finished := r.mergeEvents(filepath.Join(dir, "events.jsonl"))
			if werr != nil || !finished || timedOut {
				c := Crash{Job: i, TimedOut: timedOut}
				if werr != nil {
					c.ExitInfo = werr.Error()
				}
				if pb, err := os.ReadFile(filepath.Join(dir, "pending")); err == nil && len(pb) > 8 {
					n := binary.LittleEndian.Uint64(pb)
					pb = pb[8:]
					if n < uint64(len(pb)) {
						pb = pb[:n]
					}
					if n == 0 {
						pb = nil
					}
					for k := 0; k < len(pb); k++ {
						if pb[k] == '\n' {
							c.Case = string(pb[:k])
							c.Input = pb[k+1:]
							break
						}
					}
				}
				if sb, err := os.ReadFile(filepath.Join(dir, "stderr")); err == nil {
					c.Stderr = headTail(string(sb), 3000, 1500)
				}
				if cb, err := os.ReadFile(filepath.Join(dir, "cpu_exceeded")); err == nil {
					parts := strings.SplitN(string(cb), "\n", 3)
					fmt.Sscanf(parts[0], "%f", &c.CPUExceeded)
					if len(parts) > 1 {
						c.CPUStep = parts[1]
					}
				}
				if onCrash != nil {
					onCrash(c)
				} else {
					r.HarnessError("child %d died: %s %s", i, c.ExitInfo, Trunc(c.Stderr, 400))
				}
			}
		}(i, j)
	}
	wg.Wait()
}

func headTail(s string, head, tail int) string {
	if len(s) <= head+tail {
		return s
	}
	return s[:head] + "\n...[snip]...\n" + s[len(s)-tail:]
}

func (r *Run) mergeEvents(path string) (finished bool) {
	f, err := os.Open(path)
	if err != nil {
		return false
	}
	defer f.Close()
	sc := bufio.NewScanner(f)
	sc.Buffer(make([]byte, 1<<20), 256<<20)
	for sc.Scan() {
		var d delta
		if err := json.Unmarshal(sc.Bytes(), &d); err != nil {
			continue // torn last line of a crashed child
		}
		r.mu.Lock()
		r.evals += d.Evals
		for _, fp := range d.FPs {
			r.distinct[fp] = struct{}{}
		}
		for k, v := range d.Counts {
			r.counters[k] += v
		}
		for s, ms := range d.Seen {
			m := r.sets[s]
			if m == nil {
				m = map[string]struct{}{}
				r.sets[s] = m
			}
			for _, k := range ms {
				m[k] = struct{}{}
			}
		}
		for _, x := range d.Samples {
			if len(r.samples) < r.maxSamples {
				r.samples = append(r.samples, x)
			}
		}
		r.mu.Unlock()
		if d.Viol != "" {
			r.Violation(d.Viol, d.Witness)
		}
		if d.Inc != "" {
			r.Inconclusive(d.Inc)
		}
		if d.HarnessE != "" {
			r.HarnessError("%s", d.HarnessE)
		}
		if d.Done {
			finished = true
		}
	}
	return finished
}

// FatalClass extracts the Go runtime's "fatal error: ..." / "panic: ..."
// first line from a child's stderr, for signatures.
func FatalClass(stderr string) string {
	sc := bufio.NewScanner(strings.NewReader(stderr))
	for sc.Scan() {
		l := sc.Text()
		if len(l) > 12 && (l[:12] == "fatal error:" || (len(l) > 6 && l[:6] == "panic:")) {
			return PanicClass(l)
		}
		if len(l) > 14 && l[:14] == "runtime: goroutine stack exceeds"[:14] {
			return "stack overflow"
		}
	}
	return "died"
}
