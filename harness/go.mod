module verifharness

go 1.23

require (
	github.com/anishathalye/porcupine v1.3.0
	github.com/tonkeeper/tongo v0.0.0
)

replace github.com/tonkeeper/tongo => /repo
