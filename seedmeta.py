#!/usr/bin/env python3
"""Builds seeded/<dir>/meta.json for the later seeding rounds (r2, r3, ...) from the author's
agent_meta.json, the output of seedcheck.sh (check_output.txt), the output of seeddemo.sh where saved
(demo_output.txt) and seeded/strengthenings.json, and prints the DESIGN.md table rows.
usage: seedmeta.py <round-tag, e.g. r2> [--table]"""
import json, os, re, sys

root = os.path.join(os.path.dirname(os.path.abspath(__file__)), "seeded")
tag = sys.argv[1]
table = "--table" in sys.argv
notes = json.load(open(os.path.join(root, "strengthenings.json")))
manual = {}
mp = os.path.join(root, "manual_notes.json")
if os.path.exists(mp):
    manual = json.load(open(mp))

rows = []
for d in sorted(os.listdir(root)):
    m = re.match(r"^(C\d\d)-" + tag + r"m(\d)$", d)
    if not m:
        continue
    prop = m.group(1)
    p = os.path.join(root, d)
    am = {}
    if os.path.exists(os.path.join(p, "agent_meta.json")):
        am = json.load(open(os.path.join(p, "agent_meta.json")))
    out = ""
    if os.path.exists(os.path.join(p, "check_output.txt")):
        out = open(os.path.join(p, "check_output.txt")).read()
    res = [l for l in out.splitlines() if l.startswith("RESULT")]
    sigs = []
    for l in out.splitlines():
        mm = re.match(r"^\s*signature: (.*)$", l) or re.match(r"^\s*note: signature (.*?) was recorded as fixed", l)
        if mm and mm.group(1) not in sigs:
            sigs.append(mm.group(1).strip())
    base = [l for l in out.splitlines() if l.startswith("packages:")]
    meta = {
        "property": prop,
        "mutation": d.split("-", 1)[1],
        "round": tag,
        "title": am.get("title", ""),
        "breaks": am.get("what_it_breaks", ""),
        "needs_to_manifest": am.get("needs_to_manifest", ""),
        "files_touched": am.get("files_touched", []),
        "author": "fresh sub-agent given only the property text, the earlier ideas for this property (to avoid repeats) and its own scratch worktree; nothing from /verif",
        "agent_meta": am,
        "confirmed_by_me": {
            "compiles_and_232_baseline_tests_pass": "seedcheck.sh: patch.diff applied to a fresh worktree of /repo HEAD, go build with and without -tags verif, baseline_cmp.sh over the 17 packages holding all 232 stable tests" + (" -> " + base[0] if base else ""),
            "demo": manual.get(d, {}).get("demo", "seeddemo.sh: demonstration passes on HEAD and fails with patch.diff applied"),
            "check": "VERIF_REPO=<scratch> ./check %s quick" % prop,
        },
        "result": res[-1] if res else "not run",
        "violation_signatures": sigs[:12],
        "missed_at_first": notes.get(d, ""),
    }
    if d in manual and "note" in manual[d]:
        meta["note"] = manual[d]["note"]
    json.dump(meta, open(os.path.join(p, "meta.json"), "w"), indent=1, ensure_ascii=False)
    when = "strengthened" if d in notes else "first run"
    if d in manual and manual[d].get("when"):
        when = manual[d]["when"]
    first = sigs[0] if sigs else "-"
    title = (am.get("title", "") or am.get("what_it_breaks", ""))[:150].replace("|", "/").replace("\n", " ")
    rows.append("| %s | %s | %s | `%s` | %s |" % (prop, d.split("-", 1)[1], title, first.replace("|", "/")[:110], when))

if table:
    print("| property | change | what it breaks | caught by (first signature) | when |")
    print("|---|---|---|---|---|")
    print("\n".join(rows))
else:
    print(len(rows), "meta files written")
