#!/bin/bash
# usage: seedcheck.sh <ID> <mutation dir with patch.diff> [tier] [extra check ids...]
# Applies a seeded mutation to a fresh scratch worktree of /repo HEAD, confirms it compiles and keeps the
# 232 baseline tests green, then runs ./check <ID> <tier> against the scratch tree (VERIF_REPO) with a private
# VERIF_ROOT so that committed evidence is not touched. Prints DETECTED / MISSED.
set -u
ID="$1"; MD="$(cd "$2" && pwd)"; TIER="${3:-quick}"; shift 3 2>/dev/null || shift $#
EXTRA=("$@")
export GOFLAGS=-mod=mod GOPROXY=off GOSUMDB=off GOTOOLCHAIN=local
WT="/tmp/sv-$ID-$$"
git -C /repo worktree add -q --detach "$WT" HEAD || exit 2
cleanup() { git -C /repo worktree remove --force "$WT" 2>/dev/null; rm -rf "/tmp/sv-root-$$"; }
trap cleanup EXIT
if ! git -C "$WT" apply "$MD/patch.diff"; then echo "RESULT $ID $(basename $MD): PATCH-DOES-NOT-APPLY"; exit 2; fi
if ! (cd "$WT" && go build ./abi/... ./boc/ ./code/ ./config/ ./liteapi/... ./liteclient/ ./tl/... ./tlb/... ./ton/ ./tonconnect/ ./utils/ ./wallet/ 2>&1 | tail -5 && go build -tags verif ./liteapi/... ./liteclient/ ); then echo "RESULT $ID $(basename $MD): DOES-NOT-COMPILE"; exit 2; fi
BASE=$(VERIF_REPO="$WT" /verif/baseline_cmp.sh ./abi/... ./boc/ ./code/ ./config/ ./examples/tlb/ ./tep64/ ./tl/... ./tlb/... ./ton/ ./toncrypto/ ./utils/ ./wallet/ ./liteapi/pool/ ./liteclient/ 2>&1 | tail -8)
echo "$BASE" | head -1
if echo "$BASE" | grep -q "NOT PASSING"; then echo "$BASE"; echo "RESULT $ID $(basename $MD): BREAKS-BASELINE-TESTS"; exit 2; fi
mkdir -p "/tmp/sv-root-$$"; cp /verif/known_findings.json "/tmp/sv-root-$$/"
rc_all=0
for C in "$ID" "${EXTRA[@]}"; do
  OUT=$(cd /verif && VERIF_REPO="$WT" VERIF_ROOT="/tmp/sv-root-$$" ./check "$C" "$TIER" 2>&1); rc=$?
  echo "$OUT" | grep -E "signature|SUMMARY|HARNESS|INCONC" | sed 's/ (seen.*//' | sort | uniq | head -12
  if [ $rc -eq 1 ]; then echo "RESULT $ID $(basename $MD): DETECTED by $C ($TIER)"; rc_all=1; 
  elif [ $rc -eq 0 ]; then echo "RESULT $ID $(basename $MD): MISSED by $C ($TIER)";
  else echo "RESULT $ID $(basename $MD): CHECK-ERROR rc=$rc by $C"; echo "$OUT" | tail -15; fi
done
exit 0
